/-
container.go `dispatch`, `ServeHTTP`, `Handle`, `HandleWithFilter`, `writeServiceError`; filter.go
`FilterChain.ProcessFilter`; filter_adapter.go; compress.go `CompressingResponseWriter`,
`wantsCompressedResponse`, `NewCompressingResponseWriter`.

User code is data: handlers, filters, the recover handler and plain http.Handlers are *scripts*
(lists of `Act`).  The response writer is an explicit state: the recorder at the bottom
(first status wins, headers frozen at the first write), optionally a compressing writer on top of
it, and on top of that the wrappers installed by filters that replace the response.
-/
import Restful.Model.Route
namespace Restful
open Str

namespace Serve

inductive Act where
  | write (b : Str)              -- Response.Write / http.ResponseWriter.Write
  | writeHeader (c : Nat)        -- WriteHeader
  | addHeader (k v : Str)        -- Header().Add
  | setAttr (k v : Str)          -- Request.SetAttribute
  | panic (v : Str)
  deriving DecidableEq, Repr

inductive FKind where
  | pass      -- calls chain.ProcessFilter(req, resp)
  | stop      -- does not pass control on
  | replace   -- passes on a NEW Request (fresh attributes, no parameters) and a NEW Response whose writer wraps the old one
  | middle    -- HttpMiddlewareHandlerToFilter around a middleware that wraps the ResponseWriter before calling next
  deriving DecidableEq, Repr

structure Filter where
  id : Nat
  pre : List Act
  kind : FKind
  post : List Act
  deriving DecidableEq, Repr

inductive Coding where
  | gzip | deflate
  deriving DecidableEq, Repr

def Coding.name : Coding → Str
  | .gzip => "gzip".toList
  | .deflate => "deflate".toList

/-- which stage of the request path is running -/
inductive Stage where
  | cfilter (id : Nat) | sfilter (id : Nat) | rfilter (id : Nat)
  | handler (route : Nat) | plain (id : Nat) | errorWriter | recover
  deriving DecidableEq, Repr

structure Event where
  stage : Stage
  post : Bool                       -- after passing control on
  attrs : List (Str × Str)          -- request attributes visible
  params : Params                   -- path parameters visible
  selPath : Str                     -- Request.SelectedRoutePath()
  wrappers : List Nat               -- ids of the response wrappers between this stage and the base writer
  deriving DecidableEq, Repr

/-- the compressing writer, if one was installed -/
structure Comp where
  coding : Coding
  payload : Str := []               -- bytes handed to the compressor, in order
  closed : Bool := false
  deriving DecidableEq, Repr

/-- httptest.ResponseRecorder + what sits directly on it -/
structure Rec where
  status : Option Nat := none                   -- locked by the first WriteHeader / Write
  sent : Option (List (Str × Str)) := none      -- header snapshot taken when the status was locked
  headers : List (Str × Str) := []              -- live header map, insertion order
  body : Str := []                              -- bytes written without a compressor
  comp : Option Comp := none
  closeErrors : Nat := 0                        -- Close() calls on an already closed compressor
  writeAfterClose : Nat := 0                    -- Write() calls on a closed compressor
  deriving DecidableEq, Repr

/-- the compressor ledger: the only cross-request state besides configuration -/
structure World where
  acquired : Nat := 0
  released : Nat := 0
  deriving DecidableEq, Repr

/-- per-request mutable state threaded through the chain -/
structure St where
  rc : Rec
  log : List Event := []             -- newest first
  deriving DecidableEq, Repr

/-- what a stage holds: its Request (attributes, parameters) and its Response (wrappers) -/
structure Ctx where
  attrs : List (Str × Str) := []
  params : Params := []
  selPath : Str := []
  wrappers : List Nat := []
  deriving DecidableEq, Repr

def lockStatus (r : Rec) (c : Nat) : Rec :=
  match r.status with
  | some _ => r
  | none => { r with status := some c, sent := some r.headers }

/-- the mark a response wrapper puts in front of every chunk it forwards -/
def wrapMark (w : Nat) : Str := '<' :: (toString w).toList ++ ['>']

/-- bytes as they arrive at the base writer after passing the wrappers (outermost first in the list) -/
def throughWrappers (ws : List Nat) (b : Str) : Str :=
  ws.foldl (fun acc w => wrapMark w ++ acc) b

/-- `Write` on the base writer (compressing or not) -/
def baseWrite (r : Rec) (b : Str) : Rec :=
  match r.comp with
  | none => { lockStatus r 200 with body := r.body ++ b }
  | some c =>
    if c.closed then { r with writeAfterClose := r.writeAfterClose + 1 }
    else
      -- the coding's header goes to the recorder on the first Write: the status is locked
      { lockStatus r 200 with comp := some { c with payload := c.payload ++ b } }

def baseWriteHeader (r : Rec) (c : Nat) : Rec := lockStatus r c

def addHeader (r : Rec) (k v : Str) : Rec := { r with headers := r.headers ++ [(k, v)] }

def getHeader (r : Rec) (k : Str) : Str :=
  match r.headers.find? (fun kv => kv.1 = k) with
  | some kv => kv.2
  | none => []

/-- compress.go:61 `Close` -/
def closeComp (s : St) : St :=
  match s.rc.comp with
  | none => s
  | some c =>
    if c.closed then { s with rc := { s.rc with closeErrors := s.rc.closeErrors + 1 } }
    else { s with rc := { lockStatus s.rc 200 with comp := some { c with closed := true } } }

/-- run a script; `some v` = the script panicked with `v` (the rest is not executed) -/
def runActs : List Act → Ctx → St → Ctx × St × Option Str
  | [], cx, s => (cx, s, none)
  | a :: as, cx, s =>
    match a with
    | .write b => runActs as cx { s with rc := baseWrite s.rc (throughWrappers cx.wrappers b) }
    | .writeHeader c => runActs as cx { s with rc := baseWriteHeader s.rc c }
    | .addHeader k v => runActs as cx { s with rc := addHeader s.rc k v }
    | .setAttr k v => runActs as { cx with attrs := setParam cx.attrs k v } s
    | .panic v => (cx, s, some v)

/-- every stage records what it sees when it starts: its Request's attributes and parameters, the
    selected route path, the wrappers around its Response -/
def logStart (stage : Stage) (post : Bool) (cx : Ctx) (s : St) : St :=
  { s with log := ⟨stage, post, cx.attrs, cx.params, cx.selPath, cx.wrappers⟩ :: s.log }

def runStage (stage : Stage) (post : Bool) (script : List Act) (cx : Ctx) (s : St) : Ctx × St × Option Str :=
  runActs script cx (logStart stage post cx s)

/-- what runs when every filter passed control on -/
structure Target where
  stage : Stage
  script : List Act
  deriving DecidableEq, Repr

structure RouteX where           -- what the serve model needs beyond routing, per route
  id : Nat
  filters : List Filter := []
  script : List Act := []
  enc : Option Bool := none      -- RouteBuilder.ContentEncodingEnabled
  deriving DecidableEq, Repr

structure SvcX where
  id : Nat
  filters : List Filter := []
  deriving DecidableEq, Repr

structure Cfg where
  routing : Config
  cfilters : List Filter := []
  svcs : List SvcX := []
  routes : List RouteX := []
  encoding : Bool := false                 -- Container.EnableContentEncoding
  recover : Bool := false                  -- !doNotRecover
  recoverScript : Option (List Act) := none -- custom RecoverHandler; none = logStackOnRecover
  plainScript : List Act := []             -- the http.Handler behind Handle / HandleWithFilter
  customErr : Bool := false                -- a custom ServiceErrorHandler writing "E<code>" (the library's message texts are not part of any property)
  deriving Repr

inductive Entry where
  | dispatch            -- Container.Dispatch
  | serveDispatch       -- Container.ServeHTTP, the mux hands the request to `dispatch`
  | muxHandle           -- a pattern registered with Handle, reached through the mux only
  | serveHandle         -- the same through Container.ServeHTTP
  | muxHandleF          -- HandleWithFilter through the mux only
  | serveHandleF        -- HandleWithFilter through Container.ServeHTTP
  deriving DecidableEq, Repr

structure SReq where
  req : Req
  acceptEncoding : Str := []
  priorEncoding : Str := []      -- Content-Encoding already on the writer on arrival
  condPanic : Option Str := none -- an If-condition evaluated for this request panics with this value
  deriving Repr

/-- compress.go:98 `wantsCompressedResponse` -/
def wants (r : Rec) (acceptEncoding : Str) : Option Coding :=
  if !(getHeader r "Content-Encoding".toList).isEmpty then none
  else
    match indexSub "gzip".toList acceptEncoding, indexSub "deflate".toList acceptEncoding with
    | none, none => none
    | none, some _ => some .deflate
    | some _, none => some .gzip
    | some gi, some zi => if gi < zi then some .gzip else some .deflate

/-- compress.go:118 `NewCompressingResponseWriter` when no compressing writer is there yet -/
def install (s : St) (c : Coding) : St :=
  { s with rc := { (addHeader { s.rc with headers := s.rc.headers.filter (fun kv => kv.1 ≠ "Content-Encoding".toList) } "Content-Encoding".toList c.name)
                      with comp := some { coding := c } } }

def maybeInstall (enabled : Bool) (s : St) (acceptEncoding : Str) : St :=
  if !enabled || s.rc.comp.isSome then s
  else match wants s.rc acceptEncoding with
    | some c => install s c
    | none => s

def find? {α : Type} (p : α → Bool) (l : List α) : Option α := l.find? p

def routeX (cfg : Cfg) (id : Nat) : RouteX := (cfg.routes.find? (·.id == id)).getD { id := id }
def svcX (cfg : Cfg) (id : Nat) : SvcX := (cfg.svcs.find? (·.id == id)).getD { id := id }

/-- the text `detectRoute` and the routers put into the ServiceError -/
def available (E : ReEnv) (cfg : Config) (req : Req) : Str :=
  -- `strings.Join(available, ", ")` over the candidates that passed the Content-Type stage
  let svcRoutes : List Route :=
    match cfg.router with
    | .curly =>
      match Curly.detectWebService E (tokenize req.path) cfg.services none with
      | some (some (svc, _)) => (Curly.selectRoutes E svc.built (tokenize req.path)).getD []
      | _ => []
    | .jsr =>
      match Jsr.detectDispatcher E cfg.services req.path with
      | some (some (svc, final)) => (Jsr.selectRoutes E svc.built final).getD []
      | _ => []
  let c3 := ((svcRoutes.filter (passesConds · req)).filter (fun r => req.method = r.method)).filter (matchesContentType · req.contentType)
  join ", ".toList (c3.flatMap (·.produces))

def errorMessage (E : ReEnv) (cfg : Config) (req : Req) (tag : String) : Str :=
  match tag with
  | "404-nosvc" => (match cfg.router with | .curly => "404: Page Not Found".toList | .jsr => [])
  | "404-noroute" => "404: Page Not Found".toList
  | "404-conds" => "404: Not Found".toList
  | "405" => "405: Method Not Allowed".toList
  | "415-ct" => "415: Unsupported Media Type".toList
  | "415-ct-nobody" => "415: Unsupported Media Type\n\nAvailable representations: ".toList ++ available E cfg req
  | "415-accept-nobody" => "415: Unsupported Media Type\n\nAvailable representations: ".toList ++ available E cfg req
  | "406" => "406: Not Acceptable\n\nAvailable representations: ".toList ++ available E cfg req
  | _ => []

/-- container.go:190 `writeServiceError` as a script -/
def errorScript (code : Nat) (allow : Option (List Str)) (msg : Str) : List Act :=
  (match allow with
   | some al => [.addHeader "Allow".toList (join ", ".toList al)]
   | none => []) ++ [.writeHeader code, .write msg]

structure Result where
  rc : Rec
  log : List Event                -- oldest first
  world : World
  escaped : Option Str            -- the panic value that left the entry point
  recoverCalls : Nat
  deriving DecidableEq, Repr

/-- the recover handler: container.go:171 `logStackOnRecover` or a custom script (runs on the base writer) -/
def runRecover (cfg : Cfg) (s : St) : St :=
  match cfg.recoverScript with
  | some sc => (runStage .recover false sc {} s).2.1
  | none => { s with rc := baseWrite (baseWriteHeader s.rc 500) "<stack>".toList }

/-- filter.go:21 `ProcessFilter`, unrolled over the filter list (each filter labelled with the stage
    it belongs to).  Attributes live in a map shared by every holder of the same Request, so
    attribute writes of later stages are visible to the `post` part of earlier filters — unless a
    filter replaced the Request. -/
def runChain : List (Stage × Filter) → Target → Ctx → St → Ctx × St × Option Str
  | [], t, cx, s => runStage t.stage false t.script cx s
  | (st, f) :: fs, t, cx, s =>
    match runStage st false f.pre cx s with
    | (cx1, s1, some v) => (cx1, s1, some v)
    | (cx1, s1, none) =>
      match f.kind with
      | .stop => runStage st true f.post cx1 s1
      | .pass =>
        match runChain fs t cx1 s1 with
        | (cx2, s2, some v) => (cx2, s2, some v)
        | (cx2, s2, none) => runStage st true f.post cx2 s2
      | .replace =>
        let inner : Ctx := { attrs := [("who".toList, (toString f.id).toList)], params := [], selPath := [], wrappers := f.id :: cx1.wrappers }
        match runChain fs t inner s1 with
        | (_, s2, some v) => (cx1, s2, some v)
        | (_, s2, none) => runStage st true f.post cx1 s2
      | .middle =>
        -- same Request and Response objects; the ResponseWriter inside the Response is wrapped
        -- (the adapter stores the wrapped writer in the Response for good: filters further out see it
        -- in their post part; the middleware's own post part runs on the writer it was given)
        match runChain fs t { cx1 with wrappers := f.id :: cx1.wrappers } s1 with
        | (cx2, s2, some v) => (cx2, s2, some v)
        | (cx2, s2, none) =>
          match runStage st true f.post { cx2 with wrappers := cx1.wrappers } s2 with
          | (cx3, s3, p) => ({ cx3 with wrappers := cx2.wrappers }, s3, p)

def label (mk : Nat → Stage) (fs : List Filter) : List (Stage × Filter) := fs.map (fun f => (mk f.id, f))

/-- `allFilters = containerFilters ++ webService.filters ++ route.Filters` -/
def allFilters (cfg : Cfg) (svc rid : Nat) : List (Stage × Filter) :=
  label .cfilter cfg.cfilters ++ label .sfilter (svcX cfg svc).filters ++ label .rfilter (routeX cfg rid).filters

/-- the two deferred functions of `dispatch`, in the order they run: recover (only with recovery
    on) calls the recover handler with `writer`; then the compressing writer is closed -/
def finishDispatch (cfg : Cfg) (s : St) (p : Option Str) : St × Option Str × Nat :=
  match p with
  | none => (closeComp s, none, 0)
  | some v =>
    if cfg.recover then (closeComp (runRecover cfg s), none, 1)
    else (closeComp s, some v, 0)

/-- the text the service-error writer writes: the library's message, or "E<code>" when the harness
    installed its own ServiceErrorHandler (message texts are not part of any property) -/
def errMsg (E : ReEnv) (cfg : Cfg) (sr : SReq) (code : Nat) (tag : String) : Str :=
  if cfg.customErr then 'E' :: (toString code).toList else errorMessage E cfg.routing sr.req tag

/-- container.go:214 `dispatch` -/
def dispatch (E : ReEnv) (cfg : Cfg) (sr : SReq) (s0 : St) : St × Option Str × Nat :=
  -- a panicking If-condition unwinds out of the closure that holds the read lock (its RUnlock is deferred)
  match sr.condPanic with
  | some v => finishDispatch cfg s0 (some v)
  | none =>
  match routeTagged E cfg.routing sr.req with
  | (.panic w, _) => finishDispatch cfg s0 (some w.toList)
  | (.error code allow, tag) =>
    -- the error chain: container filters around the service-error writer; no compressor is installed here
    let t : Target := ⟨.errorWriter, errorScript code allow (errMsg E cfg sr code tag)⟩
    let (_, s1, p) := runChain (label .cfilter cfg.cfilters) t {} s0
    finishDispatch cfg s1 p
  | (.selected svc rid ps, _) =>
    let rx := routeX cfg rid
    let enabled := match rx.enc with
      | some b => b
      | none => cfg.encoding
    let s1 := maybeInstall enabled s0 sr.acceptEncoding
    let selPath : Str :=
      match (cfg.routing.services.flatMap (·.built)).find? (fun r => r.id == rid && r.svc == svc) with
      | some r => r.path
      | none => []
    let (_, s2, p) := runChain (allFilters cfg svc rid) ⟨.handler rid, rx.script⟩ { params := ps, selPath := selPath } s1
    finishDispatch cfg s2 p

/-- container.go:357 the closure `Handle` registers: optional compressor, deferred Close, no recovery.
    (every body returns the state, the panic that is still propagating, and the number of recover-handler calls) -/
def handleWrapper (cfg : Cfg) (sr : SReq) (s0 : St) (body : St → St × Option Str × Nat) : St × Option Str × Nat :=
  if s0.rc.comp.isSome then body s0
  else
    let s1 := maybeInstall cfg.encoding s0 sr.acceptEncoding
    let (s2, p, n) := body s1
    (closeComp s2, p, n)

/-- the plain http.Handler behind Handle -/
def plainBody (cfg : Cfg) (s : St) : St × Option Str × Nat :=
  let (_, s1, p) := runStage (.plain 0) false cfg.plainScript {} s
  (s1, p, 0)

/-- container.go:393 `HandleWithFilter`: the container filters around the plain handler, with the
    same deferred recover as `dispatch` (only when there are container filters: without any the
    handler is called directly) -/
def plainFilteredBody (cfg : Cfg) (s : St) : St × Option Str × Nat :=
  if cfg.cfilters.isEmpty then plainBody cfg s
  else
    let (_, s1, p) := runChain (label .cfilter cfg.cfilters) ⟨.plain 0, cfg.plainScript⟩ {} s
    match p with
    | none => (s1, none, 0)
    | some v => if cfg.recover then (runRecover cfg s1, none, 1) else (s1, some v, 0)

/-- container.go:320 `ServeHTTP` around whatever the mux selects -/
def serveWrapper (cfg : Cfg) (sr : SReq) (s0 : St) (inner : St → St × Option Str × Nat) : St × Option Str × Nat :=
  if !cfg.encoding || s0.rc.comp.isSome then inner s0
  else
    let s1 := match wants s0.rc sr.acceptEncoding with
      | some c => install s0 c
      | none => s0
    let (s2, p, n) := inner s1
    (closeComp s2, p, n)

def initial (sr : SReq) : St :=
  { rc := { headers := if sr.priorEncoding.isEmpty then [] else [("Content-Encoding".toList, sr.priorEncoding)] } }

/-- what the request did to the compressor ledger: one acquisition per installed compressing
    writer, one release when it was closed -/
def ledger (w : World) (r : Rec) : World :=
  match r.comp with
  | none => w
  | some c => { acquired := w.acquired + 1, released := w.released + (if c.closed then 1 else 0) }

/-- one request through one entry point -/
def serve (E : ReEnv) (cfg : Cfg) (e : Entry) (w : World) (sr : SReq) : Result :=
  let s0 := initial sr
  let (s, p, n) : St × Option Str × Nat :=
    match e with
    | .dispatch => dispatch E cfg sr s0
    | .serveDispatch => serveWrapper cfg sr s0 (dispatch E cfg sr)
    | .muxHandle => handleWrapper cfg sr s0 (plainBody cfg)
    | .serveHandle => serveWrapper cfg sr s0 (fun s => handleWrapper cfg sr s (plainBody cfg))
    | .muxHandleF => handleWrapper cfg sr s0 (plainFilteredBody cfg)
    | .serveHandleF => serveWrapper cfg sr s0 (fun s => handleWrapper cfg sr s (plainFilteredBody cfg))
  { rc := s.rc, log := s.log.reverse, world := ledger w s.rc, escaped := p, recoverCalls := n }

/-! ### a routing failure that is not a `ServiceError`

`RouteSelector` is an interface: a selector of the application's own, installed with
`Container.Router` (typically a wrapper around a built-in router), may report a routing failure with
any `error`.  container.go:243–252: the container filters run all the same; the target of that chain
looks at the error with `switch err.(type)` and has a case for `ServiceError` only, so for any other
error it does nothing (no service-error writer runs, nothing is written).  `dispatch` installs no
compressor on this path.  The built-in routers only return `ServiceError`s: this is a third kind of
routing outcome, which `routeTagged` (the model of the built-in routers) never produces, so it is a
separate entry of the model rather than a branch of `dispatch`. -/

/-- the target of the error chain when the error is not a `ServiceError`: the empty function -/
def routerErrorTarget : Target := ⟨.errorWriter, []⟩

/-- container.go:242 `dispatch` for a request that the installed `RouteSelector` refuses with an
    error value that is not a `ServiceError` -/
def dispatchRouterError (cfg : Cfg) (s0 : St) : St × Option Str × Nat :=
  let (_, s1, p) := runChain (label .cfilter cfg.cfilters) routerErrorTarget {} s0
  finishDispatch cfg s1 p

/-- such a request through `Container.Dispatch` (`viaServeHTTP = false`) or `Container.ServeHTTP` -/
def serveRouterError (cfg : Cfg) (viaServeHTTP : Bool) (w : World) (sr : SReq) : Result :=
  let s0 := initial sr
  let (s, p, n) : St × Option Str × Nat :=
    if viaServeHTTP then serveWrapper cfg sr s0 (dispatchRouterError cfg) else dispatchRouterError cfg s0
  { rc := s.rc, log := s.log.reverse, world := ledger w s.rc, escaped := p, recoverCalls := n }

/-- a sequence of requests on one container: only the world is carried over -/
def serveSeq (E : ReEnv) (cfg : Cfg) (e : Entry) : World → List SReq → List Result
  | _, [] => []
  | w, r :: rs => let res := serve E cfg e w r; res :: serveSeq E cfg e res.world rs

end Serve
end Restful
