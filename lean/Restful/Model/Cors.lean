/-
cors_filter.go — `CrossOriginResourceSharing.Filter` as a pure function, and
container.go:426 `computeAllowedMethods`.

What the filter does to a request is: which headers it adds to the response with
`resp.AddHeader` (in order), and whether it calls `chain.ProcessFilter` (passes the request on to
the later filters and the route function).  Nothing else: it never writes a status or a body.

* `lower : Str → Str` stands for `strings.ToLower` (DESIGN 4.1): a parameter of every definition,
  the theorems quantify over it, the driver instantiates `Str.toLowerAscii`.
* The user's `AllowedDomainFunc` is data: `pred : Option (Str → Bool)` (`none` = nil), a pure
  function of the string it is given.
* `Container` is the route table (`Config`); `Container == nil` means `DefaultContainer`, i.e. the
  same function over that container's table.
* The compiled path expressions (`ws.pathExpr`, `rt.pathExpr`) are `Jsr.compile`, and
  `Matcher.FindStringSubmatch` is its closed form `Jsr.matchExpr` (Model/Jsr.lean).  A template that
  does not compile (`none`) makes `WebService.Path` / `RouteBuilder.Build` panic, so no container
  with such a table exists: `computeAllowedMethods` answers `none` there and so does `corsOut`
  (explicitly, never a default).
-/
import Restful.Model.Jsr
namespace Restful
open Str

namespace Cors

/-- the fields of `CrossOriginResourceSharing` (cors_filter.go:20-43) the filter reads -/
structure CorsCfg where
  exposeHeaders : List Str := []
  allowedHeaders : List Str := []
  allowedDomains : List Str := []
  pred : Option (Str → Bool) := none     -- AllowedDomainFunc
  allowedMethods : List Str := []
  maxAge : Int := 0
  cookies : Bool := false                -- CookiesAllowed

/-- what the filter reads of a request -/
structure CorsReq where
  method : Str                           -- req.Request.Method
  path : Str                             -- req.Request.URL.Path
  origin : Str := []                     -- Header.Get("Origin") ("" when absent)
  acrm : Str := []                       -- Header.Get("Access-Control-Request-Method")
  acrh : Str := []                       -- Header.Get("Access-Control-Request-Headers")
  deriving DecidableEq, Repr

/-- what the filter did: headers added with `resp.AddHeader` in order, and whether it called
    `chain.ProcessFilter` -/
structure Out where
  added : List (Str × Str)
  passOn : Bool
  deriving DecidableEq, Repr

/- constants.go:15-28 -/
def hExposeHeaders : Str := "Access-Control-Expose-Headers".toList
def hAllowMethods : Str := "Access-Control-Allow-Methods".toList
def hAllowOrigin : Str := "Access-Control-Allow-Origin".toList
def hAllowCredentials : Str := "Access-Control-Allow-Credentials".toList
def hAllowHeaders : Str := "Access-Control-Allow-Headers".toList
def hMaxAge : Str := "Access-Control-Max-Age".toList

def sOPTIONS : Str := "OPTIONS".toList
def sTrue : Str := "true".toList
def sDotStar : Str := ".*".toList
def sStar : Str := "*".toList
def sComma : Str := ",".toList

/-- `strconv.Itoa(n)` for `n > 0` -/
def itoa (n : Int) : Str := Nat.toDigits 10 n.toNat

variable (lower : Str → Str)

/-- the `for _, domain := range c.AllowedDomains` loop of cors_filter.go:143 -/
def domainLoop (lowerOrigin : Str) : List Str → Bool
  | [] => false
  | domain :: rest =>
    if domain = sDotStar || lower domain = lowerOrigin then true else domainLoop lowerOrigin rest

/-- cors_filter.go:131 `isOriginAllowed`.  Note the two different arguments of the predicate:
    the LOWERED origin when the list is empty, the ORIGINAL origin after the list did not match. -/
def isOriginAllowed (cc : CorsCfg) (origin : Str) : Bool :=
  if origin.length = 0 then false
  else
    let lowerOrigin := lower origin
    if cc.allowedDomains.length = 0 then
      match cc.pred with
      | some f => f lowerOrigin
      | none => true
    else if domainLoop lower lowerOrigin cc.allowedDomains then true
    else
      match cc.pred with
      | some f => f origin
      | none => false

/-- cors_filter.go:161 `checkAndSetExposeHeaders` -/
def checkAndSetExposeHeaders (cc : CorsCfg) : List (Str × Str) :=
  if cc.exposeHeaders.length > 0 then [(hExposeHeaders, join sComma cc.exposeHeaders)] else []

/-- cors_filter.go:154 `setAllowOriginHeader` (re-checks the origin) -/
def setAllowOriginHeader (cc : CorsCfg) (rq : CorsReq) : List (Str × Str) :=
  if isOriginAllowed lower cc rq.origin then [(hAllowOrigin, rq.origin)] else []

/-- cors_filter.go:167 `checkAndSetAllowCredentials` -/
def checkAndSetAllowCredentials (cc : CorsCfg) : List (Str × Str) :=
  if cc.cookies then [(hAllowCredentials, sTrue)] else []

/-- cors_filter.go:122 `setOptionsHeaders` -/
def setOptionsHeaders (cc : CorsCfg) (rq : CorsReq) : List (Str × Str) :=
  checkAndSetExposeHeaders cc ++ setAllowOriginHeader lower cc rq ++ checkAndSetAllowCredentials cc ++
    (if cc.maxAge > 0 then [(hMaxAge, itoa cc.maxAge)] else [])

/-- cors_filter.go:77 `doActualRequest` -/
def doActualRequest (cc : CorsCfg) (rq : CorsReq) : List (Str × Str) := setOptionsHeaders lower cc rq

/-- cors_filter.go:173 `isValidAccessControlRequestMethod` -/
def isValidAccessControlRequestMethod (method : Str) : List Str → Bool
  | [] => false
  | each :: rest => if each = method then true else isValidAccessControlRequestMethod method rest

/-- cors_filter.go:182 `isValidAccessControlRequestHeader` -/
def isValidAccessControlRequestHeader (header : Str) : List Str → Bool
  | [] => false
  | each :: rest =>
    if lower each = lower header then true
    else if each = sStar then true
    else isValidAccessControlRequestHeader header rest

/-- the `for _, each := range strings.Split(acrhs, ",")` loop of cors_filter.go:104:
    `false` = the `return` inside the loop was taken -/
def requestHeadersLoop (allowedHeaders : List Str) : List Str → Bool
  | [] => true
  | each :: rest =>
    if !isValidAccessControlRequestHeader lower (trim ' ' each) allowedHeaders then false
    else requestHeadersLoop allowedHeaders rest

variable (E : ReEnv)

/-- the inner loop of container.go:434 over `ws.Routes()`; `final` is the last group of the
    service's match.  `none` = a route template that does not compile. -/
def routeMethods : List RouteDecl → Str → Option (List Str)
  | [], _ => some []
  | rt :: rest, finalMatch =>
    match Jsr.compile rt.relPath with
    | none => none
    | some ex =>
      match Jsr.matchExpr E ex.toks finalMatch with
      | some (_, lastMatch) =>
        if lastMatch = [] || lastMatch = ['/'] then (routeMethods rest finalMatch).map (rt.method :: ·)
        else routeMethods rest finalMatch
      | none => routeMethods rest finalMatch

/-- container.go:426 `computeAllowedMethods`: over ALL registered services, every route whose
    expression matches the rest of the URL up to an optional final slash contributes its method
    (duplicates kept, registration order).  `none` = a template that does not compile. -/
def computeAllowedMethods : List Service → Str → Option (List Str)
  | [], _ => some []
  | ws :: rest, requestPath =>
    match Jsr.compile ws.rootPath with
    | none => none
    | some ex =>
      match Jsr.matchExpr E ex.toks requestPath with
      | some (_, finalMatch) =>
        match routeMethods E ws.routes finalMatch, computeAllowedMethods rest requestPath with
        | some a, some b => some (a ++ b)
        | _, _ => none
      | none => computeAllowedMethods rest requestPath

/-- cors_filter.go:82 `doPreflightRequest`.  It has a POINTER receiver: the first component is the
    receiver after the call (`c.AllowedMethods` overwritten with the computed list when it was
    empty), the second what was added to the response.  `none` = the table does not compile. -/
def doPreflightRequest (cc : CorsCfg) (tbl : Config) (rq : CorsReq) : Option (CorsCfg × List (Str × Str)) :=
  let cc'? : Option CorsCfg :=
    if cc.allowedMethods.length = 0 then
      (computeAllowedMethods E tbl.services rq.path).map (fun ms => { cc with allowedMethods := ms })
    else some cc
  match cc'? with
  | none => none
  | some cc' =>
    if !isValidAccessControlRequestMethod rq.acrm cc'.allowedMethods then some (cc', [])
    else if rq.acrh.length > 0 && !requestHeadersLoop lower cc'.allowedHeaders (split ',' rq.acrh) then some (cc', [])
    else
      some (cc', (hAllowMethods, join sComma cc'.allowedMethods) :: (hAllowHeaders, rq.acrh) :: setOptionsHeaders lower cc' rq)

/-- cors_filter.go:47 `Filter`.  It has a VALUE receiver: `c` is a copy of the filter value the
    method value was taken from, so the receiver `doPreflightRequest` writes to is that copy and is
    dropped on return.  `none` = the table does not compile (no such container). -/
def corsOut (cc : CorsCfg) (tbl : Config) (rq : CorsReq) : Option Out :=
  if rq.origin.length = 0 then some ⟨[], true⟩
  else if !isOriginAllowed lower cc rq.origin then some ⟨[], true⟩
  else if rq.method ≠ sOPTIONS then some ⟨doActualRequest lower cc rq, true⟩
  else if rq.acrm ≠ [] then
    (doPreflightRequest lower E cc tbl rq).map (fun r => ⟨r.2, false⟩)
  else some ⟨doActualRequest lower cc rq, true⟩

/-- one call of the filter function installed with `c.Filter(cors.Filter)`: the filter value the
    NEXT call starts from, and the outcome.  Value receiver ⇒ the value is unchanged. -/
def filterCall (cc : CorsCfg) (tbl : Config) (rq : CorsReq) : CorsCfg × Option Out :=
  (cc, corsOut lower E cc tbl rq)

/-- a sequence of requests through ONE installed filter value -/
def corsSeq (tbl : Config) : CorsCfg → List CorsReq → List (Option Out)
  | _, [] => []
  | cc, rq :: rest =>
    let r := filterCall lower E cc tbl rq
    r.2 :: corsSeq tbl r.1 rest

/-- a sequence of requests through ONE installed filter value on a container whose route table
    CHANGES between requests (`ws.Route` on a WebService that is already registered, `ws.RemoveRoute`
    with dynamic routes — neither passes through the Container): every request comes with the table
    in force when it arrives.  `computeAllowedMethods` (container.go:434) walks
    `RegisteredWebServices()` and `ws.Routes()` anew on every call, so the table it reads is that one. -/
def corsSeqT : CorsCfg → List (Config × CorsReq) → List (Option Out)
  | _, [] => []
  | cc, (tbl, rq) :: rest =>
    let r := filterCall lower E cc tbl rq
    r.2 :: corsSeqT r.1 rest

/-- what one call WOULD be if `Filter` had a pointer receiver (the writes of `doPreflightRequest`
    persist).  Not the code: used only to show what `C09_no_memory` excludes. -/
def filterCallPtr (cc : CorsCfg) (tbl : Config) (rq : CorsReq) : CorsCfg × Option Out :=
  if rq.origin.length = 0 then (cc, some ⟨[], true⟩)
  else if !isOriginAllowed lower cc rq.origin then (cc, some ⟨[], true⟩)
  else if rq.method ≠ sOPTIONS then (cc, some ⟨doActualRequest lower cc rq, true⟩)
  else if rq.acrm ≠ [] then
    match doPreflightRequest lower E cc tbl rq with
    | some (cc', added) => (cc', some ⟨added, false⟩)
    | none => (cc, none)
  else (cc, some ⟨doActualRequest lower cc rq, true⟩)

def corsSeqPtr (tbl : Config) : CorsCfg → List CorsReq → List (Option Out)
  | _, [] => []
  | cc, rq :: rest =>
    let r := filterCallPtr lower E cc tbl rq
    r.2 :: corsSeqPtr tbl r.1 rest

end Cors
end Restful
