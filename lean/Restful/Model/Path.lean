/-
route.go `tokenizePath`; route_builder.go `concatPath`; custom_verb.go.
(TrimRightSlashEnabled = true, the default; the other strategy is not modelled.)
-/
import Restful.Go.Str
namespace Restful
open Str

/-- route.go:153 `tokenizePath` (default strategy: `strings.Split(strings.Trim(path, "/"), "/")`) -/
def tokenize (p : Str) : List Str :=
  if p = ['/'] then [] else split '/' (trim '/' p)

/-- route_builder.go:293 `concatPath` (default strategy) -/
def concatPath (root rel : Str) : Str := trimRight '/' root ++ '/' :: trimLeft '/' rel

/-- path_processor.go:66 `untokenizePath(offset, parts)` given `parts[offset:]` -/
def untokenize (parts : List Str) : Str := join ['/'] parts

def isLetter (c : Char) : Bool := ('A' ≤ c && c ≤ 'Z') || ('a' ≤ c && c ≤ 'z')

/-- split at the last `:` → (before, after) -/
def splitLastColon (s : Str) : Option (Str × Str) :=
  let r := s.reverse
  match r.dropWhile (· != ':') with
  | [] => none
  | _ :: preRev => some (preRev.reverse, (r.takeWhile (· != ':')).reverse)

/-- the match of `customVerbReg = ":([A-Za-z]+)$"`: (text before the match, the verb) -/
def customVerbOf (s : Str) : Option (Str × Str) :=
  match splitLastColon s with
  | some (pre, verb) => if !verb.isEmpty && verb.all isLetter then some (pre, verb) else none
  | none => none

/-- custom_verb.go:12 -/
def hasCustomVerb (s : Str) : Bool := (customVerbOf s).isSome

/-- custom_verb.go:16: the path token ends in `:verb` of the route token -/
def isMatchCustomVerb (routeToken pathToken : Str) : Bool :=
  match customVerbOf routeToken with
  | some (_, verb) => hasSuffix (':' :: verb) pathToken
  | none => false

/-- custom_verb.go:27 -/
def removeCustomVerb (s : Str) : Str :=
  match customVerbOf s with
  | some (pre, _) => pre
  | none => s

end Restful
