/-
C16 — the model of `Request.ReadEntity` (request.go:77-119) and of what it calls:
`entityReaderWriters.accessorAt` (entity_accessors.go:69-84), the two built-in readers
(entity_accessors.go:92-94, 136-140), the two compressor providers as far as gzip READERS are
concerned (compressor_pools.go:44-50, 70-83; compressor_cache.go:25-42, 66-87).

What the model carries is the glue:
  * which decoder is installed for which `Content-Encoding` VALUE (exact string comparison),
  * which reader is selected for which `Content-Type` SPELLING (exact key; else, among the
    registered keys that occur in the value, the one whose first occurrence is earliest, the longer
    of two that start at the same position — `Str.firstLongest`, repair 8b400b4 of the former
    finding F62: a function of the value, whatever the iteration order of the Go map), the default
    fallback, the 400 when there is none,
  * `UseNumber` as a flag of the JSON reader,
  * the pooled `*gzip.Reader` as an OBJECT WITH STATE (`residue`) taken from / returned to a pool,
    `Reset` onto the new body with its error dropped, the deferred release on every path,
  * the drain (request.go:111-117, repair 75d0593 of the former finding F61): after a SUCCESSFUL
    entity read of a gzip- or deflate-declared body the rest of the decompressing stream is read to
    its end and the error it ends with is returned; an undeclared (identity) body is not drained;
    when the entity reader fails its error is returned and nothing is drained; the pooled reader is
    released after the drain, in the state the drain left it in.

What the model does NOT carry is the codecs: `encoding/json`, `encoding/xml`, `compress/gzip`,
`compress/zlib` are the operations of an abstract `Codec`; what the theorems need to know about
them is the structure of hypotheses `CodecLaws` (no axiom: theorems take it as an argument; a toy
instance in Props/C16.lean shows it is satisfiable; the harness validates every law on every
value and body it uses).

A reader (decompressor or plain body) is seen by the entity decoder as a `Stream`: the bytes it
delivers before its terminal condition, and whether that condition is a clean EOF or an error.
This is needed to model the code as it is: `json.Decoder.Decode` / `xml.Decoder.Decode` stop at
the end of the first complete document and never look at what the stream does afterwards; it is
`ReadEntity` itself that reads a compressed stream on to its terminal condition (`Stream.clean`),
which both decompressors keep and return again on every later `Read`.
-/
import Restful.Go.Str
namespace Restful

namespace Str

/-- entity_accessors.go:73-91, the reverse lookup of `accessorAt` (shared by the entity READ side,
    `Entity.accessorAt`, and the WRITE side, `Mime.accessorAt`): `k` is the key the loop over the
    registered `keys` ends with on the value `v` —
      * `k` occurs in `v`, its first occurrence being at `i = strings.Index(v, k)`, and
      * no key occurs earlier (`strings.Index(v, k') < i`), and
      * no key whose first occurrence is at `i` as well is longer than `k`.
    Two distinct keys never tie (equal position and equal length = equal strings,
    `Entity.firstLongest_unique`), so on a Go map — distinct keys — at most one key qualifies, in
    whatever order the map is iterated; one does as soon as any key occurs
    (`Entity.firstLongest_exists`). -/
def firstLongest (keys : List Str) (v k : Str) : Bool :=
  match indexSub k v with
  | none => false
  | some i => keys.all fun k' =>
    match indexSub k' v with
    | none => true
    | some j => decide (i < j) || (i == j && decide (k'.length ≤ k.length))

end Str

namespace Entity
open Str

abbrev Bytes := Str

/-- what a reader delivers: `data`, then a clean EOF (`clean = true`) or an error -/
structure Stream where
  data : Bytes
  clean : Bool
  deriving DecidableEq, Repr

/-- a `*gzip.Reader` object: its identity, the source installed by the last `Reset`/`NewReader`,
    and whatever its previous use left behind (decompressor window, err, digest, multistream …) -/
structure GzReader where
  id : Nat
  src : Bytes
  residue : Bytes
  deriving DecidableEq, Repr

/-- the standard-library operations, abstract -/
structure Codec (Value : Type) where
  /-- `writeJSON` with `prettyPrint` on/off: `json.MarshalIndent(v, "", " ")` / `NewEncoder(resp).Encode(v)` -/
  encJson : Bool → Value → Bytes
  /-- `writeXML`: `xml.Header ++ xml.MarshalIndent(v, " ", " ")` / `xml.NewEncoder(resp).Encode(v)` -/
  encXml : Bool → Value → Bytes
  /-- `d := json.NewDecoder(stream); if useNumber { d.UseNumber() }; d.Decode(target)`; `none` = error -/
  decJson : Bool → Stream → Option Value
  /-- `xml.NewDecoder(stream).Decode(target)`; `none` = error -/
  decXml : Stream → Option Value
  /-- a client's `gzip.Writer` / `zlib.Writer` over the bytes, closed -/
  gz : Bytes → Bytes
  zl : Bytes → Bytes
  /-- a FRESH `gzip.Reader` on these bytes; a header error is the stream `⟨[], false⟩` -/
  ungz : Bytes → Stream
  /-- `zlib.NewReader(bytes)`; `none` = it returns an error (request.go:90-93) -/
  unzl : Bytes → Option Stream
  /-- what reading a reader OBJECT delivers, as a function of its whole state -/
  gzRead : GzReader → Stream
  /-- the state a reader object is left in after having been read by an entity decoder (which
      stops after the first complete document, or at the error it runs into) -/
  gzLeft : GzReader → Bytes
  /-- the state a reader object — as the entity decoder left it — is in after
      `io.Copy(ioutil.Discard, ·)` has read it on to the end of its stream (request.go:114): the
      terminal condition (EOF, checksum / trailer / next-member error) reached and kept -/
  gzEnd : GzReader → Bytes

/-- "none = error" views of the two decompressors (whole body, clean end) -/
def Codec.ungzAll {Value : Type} (C : Codec Value) (b : Bytes) : Option Bytes :=
  if (C.ungz b).clean then some (C.ungz b).data else none
def Codec.unzlAll {Value : Type} (C : Codec Value) (b : Bytes) : Option Bytes :=
  match C.unzl b with
  | some s => if s.clean then some s.data else none
  | none => none

/-- the hypotheses about the standard library under which C16 is proved -/
structure CodecLaws (Value : Type) extends Codec Value where
  /-- encoding/json with UseNumber: what either writer mode produced decodes to the value -/
  json_round : ∀ (p : Bool) (v : Value), decJson true ⟨encJson p v, true⟩ = some v
  /-- encoding/xml likewise -/
  xml_round : ∀ (p : Bool) (v : Value), decXml ⟨encXml p v, true⟩ = some v
  /-- compress/gzip: a closed gzip stream decodes to its payload and ends cleanly -/
  gz_round : ∀ b : Bytes, ungz (gz b) = ⟨b, true⟩
  /-- compress/zlib likewise -/
  zl_round : ∀ b : Bytes, unzl (zl b) = some ⟨b, true⟩
  /-- `(*gzip.Reader).Reset(src)`: afterwards the reader behaves like a fresh reader on `src`,
      whatever it was used for before (also when `Reset` itself reports an error) -/
  reset_law : ∀ (r : GzReader) (body : Bytes), gzRead { r with src := body } = ungz body
  /- (Until 75d0593 two more laws were needed — `json_dirty`, `xml_dirty`: a decoder that finds no
     document before a clean EOF finds none in the same bytes before an error.  Since `ReadEntity`
     reads a compressed stream to its end itself, no theorem depends on what a decoder does with
     a stream that ends in an error.) -/

/-! ### configuration -/

/-- the two built-in `EntityReaderWriter`s -/
inductive Kind where
  | json | xml
  deriving DecidableEq, Repr

structure Cfg where
  /-- `entityAccessRegistry.accessors` (a Go map: keys distinct, order meaningless) -/
  registry : List (Str × Kind)
  /-- `defaultRequestContentType` (request.go:14, 38-40); empty = unset -/
  dflt : Str := []
  /-- whether `entityJSONAccess.Read` calls `decoder.UseNumber()` (entity_accessors.go:138: it does) -/
  useNumber : Bool := true
  deriving DecidableEq, Repr

def MIME_JSON : Str := "application/json".toList
def MIME_XML : Str := "application/xml".toList
def ENCODING_GZIP : Str := "gzip".toList
def ENCODING_DEFLATE : Str := "deflate".toList

/-- entity_accessors.go:44-47 `init` -/
def builtinRegistry : List (Str × Kind) := [(MIME_JSON, .json), (MIME_XML, .xml)]

/-- the package as it is after `init` -/
def Cfg.asIs (dflt : Str := []) : Cfg := { registry := builtinRegistry, dflt := dflt, useNumber := true }

/-- a registry is a map from bare media types: distinct, non-empty keys without `;` or blank -/
def Cfg.wf (cfg : Cfg) : Bool :=
  decide (cfg.registry.map (·.1)).Nodup &&
    cfg.registry.all (fun e => !e.1.isEmpty && e.1.all (fun c => c != ';' && c != ' '))

/-! ### accessor selection -/

/-- keep one copy of every reader kind (first occurrences) -/
def dedup : List Kind → List Kind
  | [] => []
  | k :: ks => k :: (dedup ks).filter (· != k)

/-- entity_accessors.go:69-93 `accessorAt`: exact key; else the reader of the registered key that
    occurs first in the value, the longest of those that start there (`Str.firstLongest`).  The
    answer stays a list: `[]` is `ok == false`, and on a registry that is a map (distinct keys) it
    never has more than one element (`Entity.accessorAt_length_le_one`). -/
def accessorAt (reg : List (Str × Kind)) (mime : Str) : List Kind :=
  match reg.find? (fun e => e.1 == mime) with
  | some e => [e.2]
  | none => dedup ((reg.filter (fun e => firstLongest (reg.map (·.1)) mime e.1)).map (·.2))

/-- the lookup as it was BEFORE 8b400b4 (`for k, v := range accessors { if strings.Contains(mime,
    k) { return v } }`): every reader the iteration order of the map could produce.  Only the
    former class `f62` below is defined with it. -/
def accessorAtAnyOrder (reg : List (Str × Kind)) (mime : Str) : List Kind :=
  match reg.find? (fun e => e.1 == mime) with
  | some e => [e.2]
  | none => dedup ((reg.filter (fun e => containsSub e.1 mime)).map (·.2))

/-- request.go:99-107: the lookup with the default fallback; `[]` is the 400 -/
def accessorsFor (cfg : Cfg) (ct : Str) : List Kind :=
  match accessorAt cfg.registry ct with
  | [] => if cfg.dflt.isEmpty then [] else accessorAt cfg.registry cfg.dflt
  | ks => ks

/-- FORMER class F62 "ambiguous Content-Type" (repaired by 8b400b4; a coverage class, no theorem
    assumes anything about it any more): two registered keys with different readers are substrings
    of the Content-Type value (of the default, when the lookup falls back to it) and none is equal
    to it — before the repair the iteration order of the Go map chose between them. -/
def f62 (cfg : Cfg) (ct : Str) : Bool :=
  decide ((match accessorAtAnyOrder cfg.registry ct with
           | [] => if cfg.dflt.isEmpty then [] else accessorAtAnyOrder cfg.registry cfg.dflt
           | ks => ks).length > 1)

/-- which branch of the lookup answered (coverage tag of the driver) -/
def lookupTag (cfg : Cfg) (ct : Str) : String :=
  let viaDefault := (accessorAt cfg.registry ct).isEmpty
  let key := if viaDefault then cfg.dflt else ct
  if (accessorsFor cfg ct).isEmpty then "none"
  else
    (if viaDefault then "default-" else "") ++
    (if (cfg.registry.find? (fun e => e.1 == key)).isSome then "exact"
     else if f62 cfg ct then "first-of-several" else "substring")

/-! ### results -/

inductive ErrKind where
  | badEncoding    -- `zlib.NewReader` failed, or the entity decoder — or the drain after it — hit the error a decompressor ended with
  | badSyntax      -- the entity decoder rejected bytes that ended with a clean EOF
  | noReader400    -- request.go:105 `NewError(400, "Unable to unmarshal content of type:…")`
  deriving DecidableEq, Repr

/-- what `ReadEntity` returns.  There is no panic constructor: see `C16_error_no_panic`. -/
inductive Result (Value : Type) where
  | ok (v : Value)
  | err (k : ErrKind)
  deriving DecidableEq, Repr

def Result.isErr {Value : Type} : Result Value → Bool
  | .ok _ => false
  | .err _ => true

/-- `entityReader.Read(r, entityPointer)` for one reader kind on the installed stream -/
def entityRead {Value : Type} (C : Codec Value) (cfg : Cfg) (k : Kind) (s : Stream) : Result Value :=
  match (match k with
         | .json => C.decJson cfg.useNumber s     -- entity_accessors.go:136-140
         | .xml => C.decXml s) with               -- entity_accessors.go:92-94
  | some v => .ok v
  | none => .err (if s.clean then .badSyntax else .badEncoding)

/-- request.go:99-110: the result of the lookup and the read (a list that follows `accessorsFor`:
    one element on every registry with distinct keys) -/
def lookupAndRead {Value : Type} (C : Codec Value) (cfg : Cfg) (ct : Str) (s : Stream) : List (Result Value) :=
  match accessorsFor cfg ct with
  | [] => [.err .noReader400]
  | ks => ks.map (fun k => entityRead C cfg k s)

/-! ### compressor providers (gzip readers only) -/

inductive Provider where
  | syncPool                 -- `NewSyncPoolCompessors()`
  | bounded (cap : Nat)      -- `NewBoundedCachedCompressors(_, cap)`
  deriving DecidableEq, Repr

structure Pool where
  provider : Provider
  /-- bounded: the content of the channel, head = next to be received; sync.Pool: the objects put back -/
  idle : List GzReader
  /-- identity of the next object `newGzipReader` creates -/
  nextId : Nat
  deriving DecidableEq, Repr

/-- compressor_pools.go:70-83 `newGzipReader`: a reader on an empty gzip stream -/
def newGzipReader {Value : Type} (C : Codec Value) (id : Nat) : GzReader := { id := id, src := C.gz [], residue := [] }

def freshReaders {Value : Type} (C : Codec Value) : Nat → Nat → List GzReader
  | 0, _ => []
  | n + 1, id => newGzipReader C id :: freshReaders C n (id + 1)

/-- a provider right after its constructor -/
def Pool.fresh {Value : Type} (C : Codec Value) : Provider → Pool
  | .syncPool => { provider := .syncPool, idle := [], nextId := 0 }
  | .bounded cap => { provider := .bounded cap, idle := freshReaders C cap 0, nextId := cap }   -- compressor_cache.go:37-39

/-- `AcquireGzipReader`: compressor_cache.go:68-77 (`select { case r = <-ch: default: new }`),
    compressor_pools.go:44-46 (`Pool.Get`, `New` when empty; modelled without GC drops, see
    `C16_pool_irrelevant` for why that does not matter) -/
def Pool.acquire {Value : Type} (C : Codec Value) (p : Pool) : GzReader × Pool :=
  match p.idle with
  | r :: rest => (r, { p with idle := rest })
  | [] => (newGzipReader C p.nextId, { p with nextId := p.nextId + 1 })

/-- `ReleaseGzipReader`: compressor_cache.go:81-87 (`select { case ch <- r: default: drop }`),
    compressor_pools.go:48-50 (`Pool.Put`) -/
def Pool.release (p : Pool) (r : GzReader) : Pool :=
  match p.provider with
  | .syncPool => { p with idle := r :: p.idle }
  | .bounded cap => if p.idle.length < cap then { p with idle := p.idle ++ [r] } else p

/-! ### ReadEntity -/

structure RequestIn where
  contentType : Str        -- `Header.Get("Content-Type")`
  contentEncoding : Str    -- `Header.Get("Content-Encoding")`
  body : Bytes
  deriving DecidableEq, Repr

/-- what the ledger provider and the instrumented body of the harness can see -/
inductive Ev where
  | acquire | use | release
  deriving DecidableEq, Repr

inductive Decoder where
  | gzip | deflate | identity
  deriving DecidableEq, Repr

structure Outcome (Value : Type) where
  /-- the result (one per reader kind `accessorsFor` lists: a singleton on every registry with
      distinct keys, `Entity.readEntity_results_length`) -/
  results : List (Result Value)
  pool : Pool
  /-- acquire / use of the request body / release of a pooled reader, in program order -/
  events : List Ev
  /-- identity of the pooled reader object used -/
  reader : Option Nat
  decoder : Decoder

/-- request.go:108-118, the tail of `ReadEntity` on a body whose coding was declared (`compressed`):
    an error of the entity reader is returned as it is (:108-110, nothing is drained); after a
    successful read the stream `s` is read on to its end and what it ends with decides (:111-117):
    clean EOF ⇒ the value, an error ⇒ that error (`.badEncoding`, the constructor of every error a
    decompressor produces).  Both decompressors keep their terminal condition and return it again
    on every later `Read`, so it is `s.clean` whether or not the decoder already ran into it. -/
def drain {Value : Type} (s : Stream) : Result Value → Result Value
  | .ok v => if s.clean then .ok v else .err .badEncoding
  | .err k => .err k

/-- the pooled reader object as the deferred release hands it back (request.go:85), as a function
    of what happened between `Reset` and the return.  `read` is the entity reader's result (the
    head of the list; the list has one element on every registry with distinct keys). -/
def readerAfter {Value : Type} (C : Codec Value) (r1 : GzReader) (read : List (Result Value)) : GzReader :=
  match read with
  | .err .noReader400 :: _ => r1                                           -- :105 returned before anything was read from it
  | .ok _ :: _ =>                                                          -- :108 decoded, then :114 read to the end
    let r2 : GzReader := { r1 with residue := C.gzLeft r1 }
    { r2 with residue := C.gzEnd r2 }
  | _ => { r1 with residue := C.gzLeft r1 }                                -- :109 the entity reader failed: not drained

/-- request.go:77-119 -/
def readEntity {Value : Type} (C : Codec Value) (cfg : Cfg) (pool : Pool) (req : RequestIn) : Outcome Value :=
  if req.contentEncoding = ENCODING_GZIP then                              -- :83
    let a := pool.acquire C                                                 -- :84 AcquireGzipReader
    let r1 : GzReader := { a.1 with src := req.body }                       -- :86 Reset(body), error dropped
    let s := C.gzRead r1                                                    -- :87 what the body now delivers
    let read := lookupAndRead C cfg req.contentType s                       -- :99-110 lookup, entityReader.Read
    { results := read.map (drain s),                                        -- :111-118 compressed: drained
      pool := a.2.release (readerAfter C r1 read),                          -- :85 deferred: runs on every path, after the drain
      events := [.acquire, .use, .release], reader := some a.1.id, decoder := .gzip }
  else if req.contentEncoding = ENCODING_DEFLATE then                      -- :89
    match C.unzl req.body with
    | none => { results := [.err .badEncoding], pool := pool, events := [], reader := none, decoder := .deflate }   -- :91-93
    | some s => { results := (lookupAndRead C cfg req.contentType s).map (drain s),                                  -- :94-95, :99-118 compressed: drained
                  pool := pool, events := [], reader := none, decoder := .deflate }
  else                                                                     -- no coding declared: `compressed` stays false, never drained
    { results := lookupAndRead C cfg req.contentType ⟨req.body, true⟩, pool := pool, events := [], reader := none, decoder := .identity }

/-- a sequence of reads on one provider -/
def readSeq {Value : Type} (C : Codec Value) (cfg : Cfg) : Pool → List RequestIn → List (Outcome Value)
  | _, [] => []
  | pool, r :: rs => readEntity C cfg pool r :: readSeq C cfg (readEntity C cfg pool r).pool rs

/-- the same request alone on a provider fresh from its constructor -/
def readOne {Value : Type} (C : Codec Value) (cfg : Cfg) (prov : Provider) (req : RequestIn) : List (Result Value) :=
  (readEntity C cfg (Pool.fresh C prov) req).results

/-! ### the write side: just the bytes and the headers a client would send back -/

inductive Coding where
  | identity | gzip | deflate
  deriving DecidableEq, Repr

/-- the `Content-Encoding` value that declares the coding -/
def Coding.header : Coding → Str
  | .identity => []
  | .gzip => ENCODING_GZIP
  | .deflate => ENCODING_DEFLATE

def encodeBody {Value : Type} (C : Codec Value) : Coding → Bytes → Bytes
  | .identity, b => b
  | .gzip, b => C.gz b
  | .deflate, b => C.zl b

/-- `writeJSON` / `writeXML` (entity_accessors.go:103-128, 148-168) -/
def writeEntity {Value : Type} (C : Codec Value) (k : Kind) (pretty : Bool) (v : Value) : Bytes :=
  match k with
  | .json => C.encJson pretty v
  | .xml => C.encXml pretty v

/-- the written entity sent back as a request body under Content-Type spelling `ct`, coded and declared so -/
def requestOf {Value : Type} (C : Codec Value) (k : Kind) (pretty : Bool) (v : Value) (ct : Str) (c : Coding) : RequestIn :=
  { contentType := ct, contentEncoding := c.header, body := encodeBody C c (writeEntity C k pretty v) }

/-! ### the classes of the two deviations found, both repaired (F62 by 8b400b4 — `f62`, defined with
    the lookup above; F61 by 75d0593): no theorem assumes either any more — they remain as
    coverage classes that the driver reports, so that the check can measure that its stream keeps
    visiting them -/

/-- the stream the DECLARED coding yields on this body, read by a fresh decompressor
    (`none`: `zlib.NewReader` refuses the header) -/
def declaredStream {Value : Type} (C : Codec Value) (req : RequestIn) : Option Stream :=
  if req.contentEncoding = ENCODING_GZIP then some (C.ungz req.body)
  else if req.contentEncoding = ENCODING_DEFLATE then C.unzl req.body
  else some ⟨req.body, true⟩

/-- `k`'s decoder finds a complete document in the delivered bytes alone -/
def docFor {Value : Type} (C : Codec Value) (cfg : Cfg) (k : Kind) (data : Bytes) : Bool :=
  match k with
  | .json => (C.decJson cfg.useNumber ⟨data, true⟩).isSome
  | .xml => (C.decXml ⟨data, true⟩).isSome

/-- former class F61 "complete document before the stream breaks": the declared coding's stream
    ends in an error, but what it delivered before is already a complete document for a selectable
    reader (before 75d0593 such a request was read without error; see `C16_former_F61_class`) -/
def f61 {Value : Type} (C : Codec Value) (cfg : Cfg) (req : RequestIn) : Bool :=
  match declaredStream C req with
  | some s => !s.clean && (accessorsFor cfg req.contentType).any (fun k => docFor C cfg k s.data)
  | none => false

end Entity
end Restful
