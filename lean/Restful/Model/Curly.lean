/-
curly.go, curly_route.go — CurlyRouter.
-/
import Restful.Go.Sort
import Restful.Model.Detect
namespace Restful
open Str

namespace Curly
variable (E : ReEnv)

/-- `routeToken[colon+1 : len(routeToken)-1]`; `none` = slice bounds panic -/
def regPart (rt : Str) (colon : Nat) : Option Str :=
  slice? rt (colon + 1 : Nat) ((rt.length : Int) - 1)

/-- result of one step of the matching loop -/
inductive Step where
  | fail                -- `return false, 0, 0`
  | next                -- go on with the next token
  | stop                -- `break` (tail wildcard)
  | panic
  deriving DecidableEq, Repr

/-- curly.go:108 `regularMatchesPathToken` -/
def regularMatches (rt : Str) (colon : Nat) (q : Str) : Step :=
  match regPart rt colon with
  | none => .panic
  | some rp => if rp = ['*'] then .stop else if E.search rp q then .next else .fail

inductive MatchResult where
  | no
  | yes (paramCount staticCount : Nat)
  | panic
  deriving DecidableEq, Repr

/-- the `for i, routeToken := range routeTokens` loop of curly.go:70 -/
def walk (hasVerb : Bool) : List Str → List Str → Nat → Nat → MatchResult
  | [], _, p, s => .yes p s
  | _ :: _, [], _, _ => .no                                   -- i == len(requestTokens)
  | rt :: rts, q :: qs, p, s =>
    let verb := hasVerb && hasCustomVerb rt
    if verb && !isMatchCustomVerb rt q then .no else
    let s := if verb then s + 1 else s
    let q' := if verb then removeCustomVerb q else q
    let rt' := if verb then removeCustomVerb rt else rt
    if hasPrefix ['{'] rt' then
      match index ':' rt' with
      | some colon =>
        match regularMatches E rt' colon q' with
        | .fail => .no
        | .panic => .panic
        | .stop => .yes (p + 1) s
        | .next => walk hasVerb rts qs (p + 1) s
      | none =>
        -- `{var}suffix`: the literal text after `}` must end the request token
        match index '}' rt' with
        | some e => if !hasSuffix (rt'.drop (e + 1)) q' then .no else walk hasVerb rts qs (p + 1) s
        | none => walk hasVerb rts qs (p + 1) s
    else if q' != rt' then .no
    else walk hasVerb rts qs p (s + 1)

/-- curly.go `isTailWildcard`: the token has the form `{name:*}` -/
def isTailWildcard (rt : Str) : Bool :=
  match index ':' rt with
  | some colon => hasPrefix ['{'] rt && rt.drop (colon + 1) == ['*', '}']
  | none => false

def lastIsStar (rts : List Str) : Bool :=
  match rts.getLast? with
  | some l => isTailWildcard l
  | none => false

/-- curly.go:60 `matchesRouteByPathTokens` -/
def matchTokens (rts qs : List Str) (hasVerb : Bool) : MatchResult :=
  if decide (rts.length < qs.length) && !lastIsStar rts then .no else walk E hasVerb rts qs 0 0

structure Cand where
  route : Route
  paramCount : Nat
  staticCount : Nat
  deriving DecidableEq, Repr

/-- curly_route.go:36 `Less(i, j)` as a relation between the elements at `i` and `j` -/
def candLess (x y : Cand) : Bool :=
  -- a := s[j] = y ; b := s[i] = x
  if y.staticCount < x.staticCount then true
  else if y.staticCount > x.staticCount then false
  else if y.paramCount < x.paramCount then true
  else if y.paramCount > x.paramCount then false
  else lt y.route.path x.route.path

/-- the candidate loop of curly.go:47 `selectRoutes`; `none` = a panic while matching -/
def candidates : List Route → List Str → Option (List Cand)
  | [], _ => some []
  | r :: rs, qs =>
    match matchTokens E r.pathParts qs r.hasCustomVerb with
    | .panic => none
    | .no => candidates rs qs
    | .yes p s => (candidates rs qs).map (fun cs => ⟨r, p, s⟩ :: cs)

def selectRoutes (routes : List Route) (qs : List Str) : Option (List Route) :=
  (candidates E routes qs).map (fun cs => (Sort.insertionSort candLess cs).map (·.route))

/-- the arithmetic of curly.go:156 `computeWebserviceScore` without the regular expressions of root
    parameters (what the loop computed before fix 19aa57d; the specifications of C03 and C18 speak
    about these numbers); `none` = `false, _` -/
def scoreWalk : List Str → List Str → Nat → Option Nat
  | [], _, acc => some acc
  | _ :: _, [], _ => none
  | other :: ts, each :: qs, acc =>
    if each.isEmpty && other.isEmpty then scoreWalk ts qs (acc + 1)
    else if !other.isEmpty && hasPrefix ['{'] other then
      if each.isEmpty then none else scoreWalk ts qs (acc + 1)
    else if each != other then none
    else scoreWalk ts qs (acc + (ts.length + 1) * 10)

def wsScore (qs toks : List Str) : Option Nat :=
  if toks.length > qs.length then none else scoreWalk toks qs 0

/-- result of `computeWebserviceScore` -/
inductive Score where
  | no                  -- `false, _`
  | yes (score : Nat)   -- `true, score`
  | panic               -- slice bounds in `regularMatchesPathToken`
  deriving DecidableEq, Repr

/-- the loop of curly.go:156 `computeWebserviceScore`: a `{name:regex}` token of the root path is
    matched with `regularMatchesPathToken` (only `matchesToken` is looked at) -/
def scoreWalkE : List Str → List Str → Nat → Score
  | [], _, acc => .yes acc
  | _ :: _, [], _ => .no
  | other :: ts, each :: qs, acc =>
    if each.isEmpty && other.isEmpty then scoreWalkE ts qs (acc + 1)
    else if !other.isEmpty && hasPrefix ['{'] other then
      if each.isEmpty then .no else
      match index ':' other with
      | some colon =>
        match regularMatches E other colon each with
        | .fail => .no
        | .panic => .panic
        | _ => scoreWalkE ts qs (acc + 1)
      | none => scoreWalkE ts qs (acc + 1)
    else if each != other then .no
    else scoreWalkE ts qs (acc + (ts.length + 1) * 10)

def wsScoreE (qs toks : List Str) : Score :=
  if toks.length > qs.length then .no else scoreWalkE E toks qs 0

/-- curly.go:140 `detectWebService`: first service with the strictly greatest score; the outer
    `none` = a panic while scoring -/
def detectWebService (qs : List Str) : List Service → Option (Service × Nat) → Option (Option (Service × Nat))
  | [], best => some best
  | s :: ss, best =>
    match wsScoreE E qs (tokenize s.rootPath), best with
    | .panic, _ => none
    | .yes sc, none => detectWebService qs ss (some (s, sc))
    | .yes sc, some (b, bs) => if sc > bs then detectWebService qs ss (some (s, sc)) else detectWebService qs ss (some (b, bs))
    | .no, best => detectWebService qs ss best

end Curly
end Restful
