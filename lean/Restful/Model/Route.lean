/-
`RouteSelector.SelectRoute` followed by `PathProcessor.ExtractParameters`, for the configured
router: curly.go:19, jsr311.go:23, container.go:264-268.
-/
import Restful.Model.Curly
import Restful.Model.Jsr
import Restful.Model.Params
namespace Restful

variable (E : ReEnv)

def ofDetect (r : Except (Nat × Option (List Str)) Route) : Except Outcome Route :=
  match r with
  | .ok r => .ok r
  | .error (c, a) => .error (.error c a)

def stageTag (routes : List Route) (req : Req) : String :=
  match detectRoute routes req with
  | .ok _ => "sel"
  | .error (404, _) => "404-conds"
  | .error (405, _) => "405"
  | .error (415, _) =>
    if ((routes.filter (passesConds · req)).filter (fun r => req.method = r.method)).filter
        (matchesContentType · req.contentType) |>.isEmpty then
      (if req.contentLength ≠ 0 then "415-ct" else "415-ct-nobody") else "415-accept-nobody"
  | .error (406, _) => "406"
  | .error _ => "?"

/-- curly.go:19 `SelectRoute` + path_processor.go -/
def routeCurly (cfg : Config) (req : Req) : Outcome × String :=
  let qs := tokenize req.path
  match Curly.detectWebService E qs cfg.services none with
  | none => (.panic "curly.score", "panic")
  | some none => (.error 404 none, "404-nosvc")
  | some (some (svc, _)) =>
    match Curly.selectRoutes E svc.built qs with
    | none => (.panic "curly.match", "panic")
    | some [] => (.error 404 none, "404-noroute")
    | some cands =>
      match detectRoute cands req with
      | .error (c, a) => (.error c a, stageTag cands req)
      | .ok r =>
        match Params.extract r req.path with
        | none => (.panic "params", "panic")
        | some ps => (.selected r.svc r.id ps, "sel")

/-- jsr311.go:23 `SelectRoute` + jsr311.go:45 `ExtractParameters` -/
def routeJsr (cfg : Config) (req : Req) : Outcome × String :=
  match Jsr.detectDispatcher E cfg.services req.path with
  | none => (.panic "jsr.compile", "panic")
  | some none => (.error 404 none, "404-nosvc")
  | some (some (svc, final)) =>
    match Jsr.selectRoutes E svc.built final with
    | none => (.panic "jsr.compile", "panic")
    | some [] => (.error 404 none, "404-noroute")
    | some cands =>
      match detectRoute cands req with
      | .error (c, a) => (.error c a, stageTag cands req)
      | .ok r =>
        match Jsr.extract E svc r req.path with
        | none => (.panic "params", "panic")
        | some ps => (.selected r.svc r.id ps, "sel")

def routeTagged (cfg : Config) (req : Req) : Outcome × String :=
  match cfg.router with
  | .curly => routeCurly E cfg req
  | .jsr => routeJsr E cfg req

def route (cfg : Config) (req : Req) : Outcome := (routeTagged E cfg req).1

end Restful
