/-
The data the routing model works on: what a user declares (services, routes) and what a
request carries.  User code (If-conditions) is data: condition `i` is bit `i` of the request.
-/
import Restful.Go.Str
import Restful.Model.Path
namespace Restful

inductive RouterKind where
  | curly | jsr
  deriving DecidableEq, Repr

structure RouteDecl where
  id : Nat
  method : Str
  relPath : Str                 -- RouteBuilder.Path(subPath)
  consumes : List Str
  produces : List Str
  conds : List Nat              -- RouteBuilder.If(...): indices into `Req.conds`
  noct : List Str               -- AllowedMethodsWithoutContentType
  deriving DecidableEq, Repr

structure Service where
  id : Nat
  root : Str                    -- WebService.Path(root)
  consumes : List Str := []     -- WebService.Consumes (default for routes)
  produces : List Str := []
  routes : List RouteDecl
  deriving DecidableEq, Repr

structure Config where
  router : RouterKind
  services : List Service
  deriving DecidableEq, Repr

structure Req where
  method : Str
  path : Str
  contentType : Str := []       -- Header.Get("Content-Type")
  accept : Str := []            -- Header.Get("Accept")
  clenHeader : Str := []        -- Header.Get("Content-Length")
  contentLength : Int := 0      -- http.Request.ContentLength
  conds : List Bool := []       -- value of If-condition i on this request
  deriving DecidableEq, Repr

/-- what `RouteSelector.SelectRoute` + `ExtractParameters` come to -/
inductive Outcome where
  | selected (svc route : Nat) (params : List (Str × Str))
  | error (code : Nat) (allow : Option (List Str))      -- `allow` only on 405
  | panic (where_ : String)
  deriving DecidableEq, Repr

/-- web_service.go:66 `Path(root)` -/
def Service.rootPath (s : Service) : Str := if s.root.isEmpty then ['/'] else s.root

/-- route_builder.go:234 `copyDefaults` -/
def Service.producesOf (s : Service) (r : RouteDecl) : List Str := if r.produces.isEmpty then s.produces else r.produces
def Service.consumesOf (s : Service) (r : RouteDecl) : List Str := if r.consumes.isEmpty then s.consumes else r.consumes

/-- a built `Route` as the routers see it (route_builder.go:248 `Build`, route.go:63 `postBuild`) -/
structure Route where
  svc : Nat
  id : Nat
  method : Str
  path : Str                    -- Route.Path = concatPath root rel
  root : Str                    -- the service's root path when the route was built
  relPath : Str
  pathParts : List Str          -- tokenizePath(Path)
  hasCustomVerb : Bool          -- hasCustomVerb(Path)
  consumes : List Str
  produces : List Str
  conds : List Nat
  noct : List Str
  deriving DecidableEq, Repr

def Service.build (s : Service) (r : RouteDecl) : Route :=
  let p := concatPath s.rootPath r.relPath
  { svc := s.id, id := r.id, method := r.method, path := p, root := s.rootPath, relPath := r.relPath,
    pathParts := tokenize p, hasCustomVerb := hasCustomVerb p,
    consumes := s.consumesOf r, produces := s.producesOf r, conds := r.conds, noct := r.noct }

def Service.built (s : Service) : List Route := s.routes.map s.build

/-- the regular-expression oracle the model is parametric in -/
structure ReEnv where
  search : Str → Str → Bool     -- `regexp.MatchString(re, s)` reporting `matched && err == nil`
  full : Str → Str → Bool       -- `re` matches exactly `s`

abbrev Params := List (Str × Str)

/-- association list standing for a Go `map[string]string` written to in order -/
def setParam (ps : Params) (k v : Str) : Params :=
  match ps with
  | [] => [(k, v)]
  | (k', v') :: rest => if k' = k then (k, v) :: rest else (k', v') :: setParam rest k v

end Restful
