/-
route.go `matchesAccept`, `matchesContentType`; jsr311.go:69 `detectRoute` (shared by both routers).
-/
import Restful.Model.Config
namespace Restful
open Str

/-- `mimeType[:strings.Index(mimeType, ";")]` when there is a `;` -/
def cutAtSemi (s : Str) : Str := s.takeWhile (· != ';')

/-- `strings.TrimFunc(s, r == ' ')` -/
def trimSpaces (s : Str) : Str := trim ' ' s

/-- one element of a comma-separated header, as both loops normalise it -/
def mediaOf (piece : Str) : Str := trimSpaces (cutAtSemi piece)

/-- `len(remaining) == 0` where `remaining` is the join of the pieces still to come -/
def remainingEmpty : List Str → Bool
  | [] => true
  | [p] => p.isEmpty
  | _ => false

def starStar : Str := "*/*".toList

/-- the `for` loop of route.go:86 over the comma-separated pieces -/
def acceptLoop (produces : List Str) : List Str → Bool
  | [] => false
  | piece :: rest =>
    let mt := mediaOf piece
    if mt = starStar then true
    else if produces.any (fun p => p = starStar || p = mt) then true
    else if remainingEmpty rest then false
    else acceptLoop produces rest

/-- route.go:86 `Route.matchesAccept` -/
def matchesAccept (r : Route) (accept : Str) : Bool := acceptLoop r.produces (split ',' accept)

def consumeLoop (consumes : List Str) : List Str → Bool
  | [] => false
  | piece :: rest =>
    let mt := mediaOf piece
    if consumes.any (fun c => c = starStar || c = mt) then true
    else if remainingEmpty rest then false
    else consumeLoop consumes rest

def mimeOctet : Str := "application/octet-stream".toList

def idempotentMethods : List Str := ["GET", "HEAD", "OPTIONS", "DELETE", "TRACE"].map String.toList

/-- route.go:114 `Route.matchesContentType` -/
def matchesContentType (r : Route) (mimeTypes : Str) : Bool :=
  if r.consumes.isEmpty then true
  else if mimeTypes.isEmpty then
    if (if !r.noct.isEmpty then r.noct.contains r.method else idempotentMethods.contains r.method) then true
    else consumeLoop r.consumes (split ',' mimeOctet)
  else consumeLoop r.consumes (split ',' mimeTypes)

/-- every If-condition of the route returns true -/
def passesConds (r : Route) (req : Req) : Bool := r.conds.all (fun i => req.conds.getD i false)

/-- the `allowedLoop` of detectRoute: methods in order of first appearance -/
def allowedMethods : List Route → List Str → List Str
  | [], acc => acc.reverse
  | r :: rs, acc => if acc.contains r.method then allowedMethods rs acc else allowedMethods rs (r.method :: acc)

def bodylessMethods : List Str := ["POST", "PUT", "PATCH"].map String.toList

/-- which stage of `detectRoute` decided (the driver reports it as a coverage tag) -/
inductive DetectStage where
  | conds | method | contentType | accept | ok
  deriving DecidableEq, Repr

/-- jsr311.go:69 `detectRoute` -/
def detectRoute (routes : List Route) (req : Req) : Except (Nat × Option (List Str)) Route :=
  let c1 := routes.filter (passesConds · req)
  if c1.isEmpty then .error (404, none) else
  let c2 := c1.filter (fun r => req.method = r.method)
  if c2.isEmpty then .error (405, some (allowedMethods c1 [])) else
  let c3 := c2.filter (matchesContentType · req.contentType)
  if c3.isEmpty && decide (req.contentLength ≠ 0) then .error (415, none) else
  let accept := if req.accept.isEmpty then starStar else req.accept
  let c4 := c3.filter (matchesAccept · accept)
  match c4 with
  | [] =>
    if bodylessMethods.contains req.method && decide (req.contentLength = 0)
    then .error (415, none) else .error (406, none)
  | r :: _ => .ok r

end Restful
