/-
options_filter.go `Container.OPTIONSFilter` as a pure function: the headers it adds (in order) and
whether it passes control on.  `computeAllowedMethods` is the one of Model/Cors.lean.
-/
import Restful.Model.Cors
namespace Restful
namespace Options

structure OptReq where
  method : Str
  path : Str
  origin : Str := []
  acrh : Str := []      -- Access-Control-Request-Headers
  acrm : Str := []      -- Access-Control-Request-Method: a browser preflight carries it; options_filter.go never reads it
  deriving Repr

structure Out where
  added : List (Str × Str)
  passOn : Bool
  deriving Repr, DecidableEq

/-- options_filter.go:15; `none` = a template of the table does not compile (no such container exists) -/
def optionsOut (E : ReEnv) (tbl : Config) (rq : OptReq) : Option Out :=
  if rq.method != Cors.sOPTIONS then some ⟨[], true⟩
  else
    match Cors.computeAllowedMethods E tbl.services rq.path with
    | none => none
    | some ms =>
      let methods := Str.join Cors.sComma ms
      some ⟨[("Allow".toList, methods), (Cors.hAllowOrigin, rq.origin), (Cors.hAllowHeaders, rq.acrh), (Cors.hAllowMethods, methods)], false⟩

end Options
end Restful
