/-
path_processor.go `defaultPathProcessor.ExtractParameters` (used with CurlyRouter).
-/
import Restful.Model.Config
namespace Restful
open Str

namespace Params

/-- the loop of path_processor.go:25; `none` = a slice-bounds panic.
    `url` is `urlParts[i:]` (so `untokenizePath(i, urlParts)` is `untokenize url`). -/
def extractWalk (hasVerb : Bool) : List Str → List Str → Params → Option Params
  | [], _, ps => some ps
  | key :: keys, url, ps =>
    let value := url.headD []
    let verb := hasVerb && hasCustomVerb key
    let key := if verb then removeCustomVerb key else key
    let value := if verb then removeCustomVerb value else value
    match index '{' key with
    | none => extractWalk hasVerb keys url.tail ps
    | some startIndex =>
      match index ':' key with
      | some colon =>
        match slice? key (colon + 1 : Nat) ((key.length : Int) - 1), slice? key 1 colon with
        | some regPart, some keyPart =>
          if regPart = ['*'] then some (setParam ps keyPart (untokenize url))
          else extractWalk hasVerb keys url.tail (setParam ps keyPart value)
        | _, _ => none
      | none =>
        let endKeyIndex : Int := match index '}' key with
          | some i => i
          | none => -1
        let suffixLength : Int := key.length - endKeyIndex - 1
        let endValueIndex : Int := value.length - suffixLength
        match slice? key (startIndex + 1 : Nat) endKeyIndex, slice? value startIndex endValueIndex with
        | some name, some v => extractWalk hasVerb keys url.tail (setParam ps name v)
        | _, _ => none

/-- path_processor.go:22 -/
def extract (r : Route) (urlPath : Str) : Option Params :=
  extractWalk r.hasCustomVerb r.pathParts (tokenize urlPath) []

end Params
end Restful
