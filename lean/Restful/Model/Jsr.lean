/-
path_expression.go, jsr311.go — RouterJSR311.

The compiled template expression `^/lit/([^/]+?)/(re)/(.*)(/.*)?$` is not interpreted as a
regular expression: on templates whose regex variables are *segment-local* (cannot match a
`/`, contain no capture groups) leftmost-first matching of such an expression has the closed
form implemented by `matchExpr` below (DESIGN 4.2).  The correspondence check validates it.
-/
import Restful.Go.Sort
import Restful.Model.Detect
namespace Restful
open Str

namespace Jsr
variable (E : ReEnv)

/-- one non-empty template token as `templateToRegularExpression` reads it -/
inductive JTok where
  | lit (s : Str)             -- `regexp.QuoteMeta(each)`
  | var (name : Str)          -- `([^/]+?)`
  | re (name expr : Str)      -- `(expr)`
  | wild (name : Str)         -- `(.*)`
  deriving DecidableEq, Repr

/-- `strings.TrimSpace` restricted to the space character (generated names contain no other blank) -/
def trimSpace (s : Str) : Str := trim ' ' s

/-- path_expression.go:45-66 for one token; `none` = slice-bounds panic while building -/
def parseTok (each : Str) : Option JTok :=
  if hasPrefix ['{'] each then
    match index ':' each with
    | some colon =>
      match slice? each 1 colon, slice? each (colon + 1 : Nat) ((each.length : Int) - 1) with
      | some n, some e =>
        let e := trimSpace e
        if e = ['*'] then some (.wild (trimSpace n)) else some (.re (trimSpace n) e)
      | _, _ => none
    | none =>
      match slice? each 1 ((each.length : Int) - 1) with
      | some n => some (.var (trimSpace n))
      | none => none
  else some (.lit each)

/-- what `newPathExpression` keeps -/
structure Expr where
  toks : List JTok
  literalCount : Nat
  varNames : List Str
  varCount : Nat
  deriving DecidableEq, Repr

def parseToks : List Str → Option (List JTok)
  | [] => some []
  | t :: ts =>
    if t.isEmpty then parseToks ts
    else match parseTok t, parseToks ts with
      | some j, some js => some (j :: js)
      | _, _ => none

def varNameOf : JTok → Option Str
  | .lit _ => none
  | .var n => some n
  | .re n _ => some n
  | .wild n => some n

def litLen : JTok → Nat
  | .lit s => s.length
  | _ => 0

/-- path_expression.go:35 `templateToRegularExpression` -/
def compile (template : Str) : Option Expr :=
  (parseToks (tokenize template)).map fun ts =>
    { toks := ts, literalCount := (ts.map litLen).sum, varNames := ts.filterMap varNameOf,
      varCount := (ts.filterMap varNameOf).length }

/-- closed form of `Matcher.FindStringSubmatch(s)`: the variable captures in order and the
    final group `(/.*)?`; `none` = no match -/
def matchExpr : List JTok → Str → Option (List Str × Str)
  | [], rest =>
    if (rest.isEmpty || rest.head? == some '/') && !List.contains rest '\n' then some ([], rest) else none
  | t :: ts, rest =>
    match rest with
    | '/' :: r =>
      match t with
      | .lit l =>
        if l.isPrefixOf r then matchExpr ts (r.drop l.length) else none
      | .var _ =>
        let seg := r.takeWhile (· != '/')
        if seg.isEmpty then none
        else (matchExpr ts (r.dropWhile (· != '/'))).map (fun cf => (seg :: cf.1, cf.2))
      | .re _ e =>
        let seg := r.takeWhile (· != '/')
        if E.full e seg then (matchExpr ts (r.dropWhile (· != '/'))).map (fun cf => (seg :: cf.1, cf.2))
        else none
      | .wild _ =>
        -- greedy `(.*)` then `(/.*)?$`: takes everything, cannot cross a newline
        match ts with
        | [] => if List.contains r '\n' then none else some ([r], [])
        | _ :: _ => none      -- a wildcard that is not last: outside the closed form (never generated)
    | _ => none

structure RouteCand where
  route : Route
  matchesCount : Nat
  literalCount : Nat
  nonDefaultCount : Nat
  deriving DecidableEq, Repr

/-- jsr311.go:246 `sortableRouteCandidates.Less` composed with `sort.Reverse`:
    `Less(i, j) = orig.Less(j, i)`, as a relation between the elements at `i` (= x) and `j` (= y) -/
def routeCandLess (x y : RouteCand) : Bool :=
  -- orig.Less(j, i): ci := y, cj := x
  if y.literalCount < x.literalCount then true
  else if y.literalCount > x.literalCount then false
  else if y.matchesCount < x.matchesCount then true
  else if y.matchesCount > x.matchesCount then false
  else if y.nonDefaultCount < x.nonDefaultCount then true
  else if y.nonDefaultCount > x.nonDefaultCount then false
  else lt y.route.path x.route.path

/-- the candidate loop of jsr311.go:181 `selectRoutes`; `none` = the template does not compile -/
def routeCandidates : List Route → Str → Option (List RouteCand)
  | [], _ => some []
  | r :: rs, remainder =>
    match compile r.relPath with
    | none => none
    | some ex =>
      match matchExpr E ex.toks remainder with
      | some (caps, final) =>
        if final.isEmpty || final = ['/'] then
          (routeCandidates rs remainder).map (fun cs => ⟨r, caps.length + 1, ex.literalCount, ex.varCount⟩ :: cs)
        else routeCandidates rs remainder
      | none => routeCandidates rs remainder

def selectRoutes (routes : List Route) (remainder : Str) : Option (List Route) :=
  (routeCandidates E routes remainder).map (fun cs => (Sort.insertionSort routeCandLess cs).map (·.route))

structure DispCand where
  svc : Service
  finalMatch : Str
  matchesCount : Nat
  literalCount : Nat
  nonDefaultCount : Nat
  deriving DecidableEq, Repr

/-- jsr311.go:305 with `sort.Reverse` -/
def dispCandLess (x y : DispCand) : Bool :=
  if y.matchesCount < x.matchesCount then true
  else if y.matchesCount > x.matchesCount then false
  else if y.literalCount < x.literalCount then true
  else if y.literalCount > x.literalCount then false
  else decide (y.nonDefaultCount < x.nonDefaultCount)

def dispCandidates : List Service → Str → Option (List DispCand)
  | [], _ => some []
  | s :: ss, path =>
    match compile s.rootPath with
    | none => none
    | some ex =>
      match matchExpr E ex.toks path with
      | some (caps, final) =>
        (dispCandidates ss path).map (fun cs => ⟨s, final, caps.length + 2, ex.literalCount, ex.varCount⟩ :: cs)
      | none => dispCandidates ss path

/-- jsr311.go:213 `detectDispatcher`; outer `none` = compile failure, inner `none` = "not found" -/
def detectDispatcher (svcs : List Service) (path : Str) : Option (Option (Service × Str)) :=
  (dispCandidates E svcs path).map fun cs =>
    match Sort.insertionSort dispCandLess cs with
    | [] => none
    | c :: _ => some (c.svc, c.finalMatch)

/-- jsr311.go:58 `extractParams`: `VarNames[i-1] ↦ matches[i]` while both exist -/
def bindParams : List Str → List Str → Params → Params
  | n :: ns, m :: ms, ps => bindParams ns ms (setParam ps n m)
  | _, _, ps => ps

/-- jsr311.go:45 `ExtractParameters`; `none` = nil-slice index panic -/
def extract (s : Service) (r : Route) (urlPath : Str) : Option Params :=
  match compile s.rootPath, compile r.relPath with
  | some wex, some rex =>
    match matchExpr E wex.toks urlPath with
    | none => none                                   -- webServiceMatches[len-1] on a nil slice
    | some (wcaps, final) =>
      let ps := bindParams wex.varNames wcaps []
      match matchExpr E rex.toks final with
      | none => some ps
      | some (rcaps, _) => some (bindParams rex.varNames rcaps ps)
  | _, _ => none

end Jsr
end Restful
