/-
`net/http.ServeMux` as go-restful uses it (DESIGN 4.7): the Go 1.21 mux (`GODEBUG httpmuxgo121=1`,
in effect because /repo's go.mod says `go 1.13`), `$GOROOT/src/net/http/servemux121.go`, restricted
to the patterns go-restful registers: no host (every pattern starts with `/`), no method.

State = the registered (pattern, target) pairs in registration order.  `mux.m` (a map) and `mux.es`
(the patterns ending in `/`, longest first) are both functions of that list.
-/
import Restful.Go.Str
namespace Restful
open Str

namespace Mux

/-- who a pattern was registered for -/
inductive Target where
  | dispatch                  -- `c.dispatch` (container.go:121/134/137)
  | plain (id : Nat)          -- a handler given to `Container.Handle` / `HandleWithFilter`
  deriving DecidableEq, Repr

abbrev Entry := Str × Target
abbrev Table := List Entry

/-- what `ServeMux.Handle` can panic with (servemux121.go:56-64) -/
inductive RegError where
  | invalidPattern                    -- "http: invalid pattern"
  | multiple (pattern : Str)          -- "http: multiple registrations for " + pattern
  deriving DecidableEq, Repr

/-- `_, exist := mux.m[p]` -/
def has (t : Table) (p : Str) : Bool := t.any (·.1 == p)

/-- servemux121.go:53 `handle` -/
def register (t : Table) (p : Str) (h : Target) : Except RegError Table :=
  if p.isEmpty then .error .invalidPattern
  else if has t p then .error (.multiple p)
  else .ok (t ++ [(p, h)])

/-! ### `path.Clean` on a rooted path, `cleanPath` (server.go:2524) -/

/-- the element loop of `path.Clean` for a rooted path: `acc` is the stack of kept elements, last
    kept first.  Empty elements and `.` are skipped, `..` drops the last kept element (nothing to
    drop at the root). -/
def cleanSegs : List Str → List Str → List Str
  | [], acc => acc.reverse
  | s :: rest, acc =>
    if s = [] ∨ s = ['.'] then cleanSegs rest acc
    else if s = ['.', '.'] then cleanSegs rest acc.tail
    else cleanSegs rest (s :: acc)

/-- `path.Clean(p)` for `p` starting with `/` -/
def pathCleanRooted (p : Str) : Str := '/' :: join ['/'] (cleanSegs (split '/' p) [])

/-- server.go:2524 `cleanPath` -/
def cleanPath (p : Str) : Str :=
  if p.isEmpty then ['/'] else
  let p := if p.head? = some '/' then p else '/' :: p
  let np := pathCleanRooted p
  if p.getLast? = some '/' && np != ['/'] then np ++ ['/'] else np

/-! ### lookup -/

/-- the exact-match half of servemux121.go:150 `match` -/
def exact (t : Table) (path : Str) : Option Entry := t.find? (·.1 == path)

/-- a pattern of `mux.es` (ends in `/`) that is a prefix of the path -/
def eligible (path : Str) (e : Entry) : Bool := e.1.getLast? = some '/' && e.1.isPrefixOf path

/-- first entry of maximal pattern length (`mux.es` is sorted longest first, insertion is stable) -/
def pickMax : List Entry → Option Entry
  | [] => none
  | e :: rest =>
    match pickMax rest with
    | none => some e
    | some b => if e.1.length < b.1.length then some b else some e

/-- the prefix half of `match` -/
def longest (t : Table) (path : Str) : Option Entry := pickMax (t.filter (eligible path))

/-- servemux121.go:130 `handler` without hosts: `none` = `NotFoundHandler()` -/
def handler (t : Table) (path : Str) : Option Target :=
  match exact t path with
  | some e => some e.2
  | none => (longest t path).map (·.2)

/-- servemux121.go:188 `shouldRedirectRLocked` (no host-specific patterns) -/
def shouldRedirect (t : Table) (path : Str) : Bool :=
  if has t path then false
  else if path.isEmpty then false
  else if has t (path ++ ['/']) then path.getLast? != some '/'
  else false

inductive Result where
  | redirect (location : Str)         -- 301, `Location: location`
  | target (h : Target)
  | notFound                          -- the mux's own 404
  deriving DecidableEq, Repr

def ofHandler : Option Target → Result
  | some h => .target h
  | none => .notFound

/-- servemux121.go:99 `findHandler` -/
def lookup (t : Table) (method path : Str) : Result :=
  if method = ['C', 'O', 'N', 'N', 'E', 'C', 'T'] then
    if shouldRedirect t path then .redirect (path ++ ['/']) else ofHandler (handler t path)
  else
    let cp := cleanPath path
    if shouldRedirect t cp then .redirect (cp ++ ['/'])
    else if cp != path then .redirect cp
    else ofHandler (handler t path)

end Mux
end Restful
