/-
The bookkeeping of `restful.Response` (response.go, entity_accessors.go) over an arbitrary
underlying `http.ResponseWriter`.

What is modelled: the fields `statusCode`, `contentLength`, `err`, `prettyPrint`, `requestAccept`
(reduced to which entity accessor `EntityWriter()` finds) and, for every non-deprecated writing
call, the exact sequence of `Response.WriteHeader` / `Response.Write` calls the Go code performs.

What is data (supplied by the harness, universally quantified in the theorems):
* the underlying writer: `Env`, the result `(accepted, err)` of its i-th `Write` call; `err` is the
  error VALUE it returned (a tag: 0 = nil, anything else identifies the value).  Nothing is assumed
  about it (not even `accepted ≤ offered`, nor that different calls return different errors);
* marshalling (`encoding/json`, `encoding/xml`): a value is described by what the standard
  marshallers do with it (`Marshalled`): the size of the `MarshalIndent` output or its failure, the
  sizes of the `Write` calls a `json.Encoder` / `xml.Encoder` issues when no write fails,
  whether the encoder reports a marshalling error of its own after those writes, and — for a value
  that does — after which of those writes, when it is the one that fails, `xml.Encoder.Encode` still
  runs into its own error and returns THAT instead of the writer's (`encXmlMasked`).
-/
namespace Restful
namespace Resp

/-- what the underlying writer returned for one `Write` call: `(n, err)`; `err = 0` is `nil`, any
    other number is the identity of the error value -/
structure WRes where
  accepted : Nat
  err : Nat
  deriving DecidableEq, Repr, Inhabited

/-- `err != nil` -/
def WRes.failed (r : WRes) : Bool := r.err != 0

/-- the underlying writer during one run: the result of its i-th `Write` call (0-based) -/
abbrev Env := Nat → WRes

/-- an environment given by a list of results; `dflt` for every later call -/
def Env.ofList (l : List WRes) (dflt : WRes := ⟨0, 0⟩) : Env := fun i => l.getD i dflt

/-- a call received by the underlying writer -/
inductive UEvent where
  | header (status : Nat)
  | write (offered accepted : Nat) (err : Nat)      -- `err`: the tag of the error returned, 0 = nil
  deriving DecidableEq, Repr

/-- the `error` a call on the Response returns -/
inductive Ret where
  | nil
  /-- the very value the underlying writer's `Write` returned (its tag, never 0) -/
  | writer (tag : Nat)
  /-- an error made elsewhere: a marshaller's own -/
  | other
  deriving DecidableEq, Repr

/-- `err != nil` -/
def Ret.isErr : Ret → Bool
  | .nil => false
  | _ => true

/-- which accessor `Response.EntityWriter()` (response.go:84) finds for the current
    `requestAccept` / `routeProduces`; choosing it is C05's subject, here it is a setting -/
inductive Accessor where
  | none | json | xml
  deriving DecidableEq, Repr

inductive Fmt where
  | json | xml
  deriving DecidableEq, Repr

/-- what the standard marshallers do with one value -/
structure Marshalled where
  /-- `v == nil` (the untyped nil interface) -/
  isNil : Bool := false
  /-- `len(json.MarshalIndent(v, "", " "))`, `none` when it returns an error -/
  prettyJson : Option Nat := none
  /-- `len(xml.MarshalIndent(v, " ", " "))`, `none` when it returns an error -/
  prettyXml : Option Nat := none
  /-- sizes of the `Write` calls of `json.NewEncoder(w).Encode(v)` on a writer that never fails -/
  encJson : List Nat := []
  /-- that `Encode` returns an error of its own (after those writes) -/
  encJsonFails : Bool := false
  encXml : List Nat := []
  encXmlFails : Bool := false
  /-- only meaningful with `encXmlFails`: entry i says that when the i-th of those writes fails,
      `Encode` goes on to its own marshalling error and returns it instead of the writer's (the write
      was a flush of the 4096-byte `bufio.Writer` triggered between two of the encoder's checks of the
      sticky write error).  `[]` = never. -/
  encXmlMasked : List Bool := []
  deriving DecidableEq, Repr

/-- `len(xml.Header)` (encoding/xml: `<?xml version="1.0" encoding="UTF-8"?>` + newline) -/
def xmlHeaderLen : Nat := 39

/-- the non-deprecated calls that write, plus the two setters that decide how they write -/
inductive Call where
  /-- response.go:66 `PrettyPrint(b)` -/
  | prettyPrint (b : Bool)
  /-- response.go:77 `SetRequestAccepts(mime)`, reduced to the accessor it leads to -/
  | setAccept (a : Accessor)
  /-- response.go:71 `AddHeader(name, value)` / `Header().Set|Add|Del(name, …)`: a change of the header map
      the Response shares with the underlying writer (any name, `Content-Length` included, any value).
      Neither the status nor the length bookkeeping reads that map, so the call carries no data. -/
  | setHeader
  /-- response.go:222 -/
  | writeHeader (status : Nat)
  /-- response.go:238 `Write(bytes)`, `n = len(bytes)` -/
  | write (n : Nat)
  /-- response.go:199 `WriteErrorString(status, reason)`, `n = len(reason)` -/
  | writeErrorString (status n : Nat)
  /-- response.go:182 `WriteError(status, err)`, `n = len(err.Error())` (0 when `err == nil`) -/
  | writeError (status : Nat) (errIsNil : Bool) (n : Nat)
  /-- response.go:193 -/
  | writeServiceError (status : Nat) (v : Marshalled)
  /-- response.go:141 -/
  | writeHeaderAndEntity (status : Nat) (v : Marshalled)
  /-- response.go:130 -/
  | writeEntity (v : Marshalled)
  /-- response.go:164 -/
  | writeAsJson (v : Marshalled)
  /-- response.go:152 -/
  | writeAsXml (v : Marshalled)
  /-- response.go:170 (the content type only goes into a header) -/
  | writeJson (v : Marshalled)
  /-- response.go:176 -/
  | writeHeaderAndJson (status : Nat) (v : Marshalled)
  /-- response.go:158 -/
  | writeHeaderAndXml (status : Nat) (v : Marshalled)
  deriving DecidableEq, Repr

/-- the two methods of `Response` that reach the underlying writer -/
inductive Prim where
  | hdr (status : Nat)
  | wr (n : Nat)
  deriving DecidableEq, Repr

/-- the part of the state that decides *which* calls are made; independent of the writer -/
structure Settings where
  prettyPrint : Bool := true
  accept : Accessor := .none
  deriving DecidableEq, Repr

/-- response.go:22 -/
structure State where
  statusCode : Nat
  contentLength : Nat
  err : Bool
  set : Settings
  /-- number of `Write` calls the underlying writer has received -/
  writes : Nat
  deriving DecidableEq, Repr

/-- response.go:34 `NewResponse`: `statusCode: http.StatusOK`, `prettyPrint: PrettyPrintResponses` -/
def State.init (s : Settings := {}) : State :=
  { statusCode := 200, contentLength := 0, err := false, set := s, writes := 0 }

/-- response.go:228 `StatusCode()` -/
def State.StatusCode (st : State) : Nat := if st.statusCode = 0 then 200 else st.statusCode

/-- response.go:247 `ContentLength()` -/
def State.ContentLength (st : State) : Nat := st.contentLength

/-- One call of `Response.WriteHeader` (response.go:222) or `Response.Write` (response.go:238):
    new state, what the underlying writer saw, the error that came back (response.go:241 hands the
    writer's `err` on unchanged; 0 = nil). -/
def stepPrim (env : Env) (st : State) : Prim → State × UEvent × Nat
  | .hdr s => ({ st with statusCode := s }, .header s, 0)
  | .wr n =>
    let r := env st.writes
    ({ st with contentLength := st.contentLength + r.accepted, writes := st.writes + 1 },
      .write n r.accepted r.err, r.err)

/-- A straight-line sequence of `WriteHeader`/`Write` calls that returns at the first `Write`
    error — the shape of every writing function of response.go and entity_accessors.go (and of the
    encoders: `json.Encoder` writes once, `xml.Encoder` writes through a `bufio.Writer` whose error
    is sticky).  Returns the error of the failing `Write` (0 = none failed). -/
def runPrims (env : Env) : State → List Prim → State × List UEvent × Nat
  | st, [] => (st, [], 0)
  | st, p :: ps =>
    match stepPrim env st p with
    | (st1, e, t + 1) => (st1, [e], t + 1)
    | (st1, e, 0) =>
      match runPrims env st1 ps with
      | (st2, es, f) => (st2, e :: es, f)

/-- the calls one high-level call makes when no `Write` fails, and whether it returns an error
    of its own (a marshalling error) -/
structure Plan where
  prims : List Prim
  ownErr : Bool
  /-- with `ownErr`: aligned with the `Write`s among `prims`; entry i = when that write fails the
      call returns its own error, not the writer's (see `Marshalled.encXmlMasked`) -/
  masked : List Bool := []
  deriving DecidableEq, Repr

/-- the error a call returns, given how many `Write`s it made and the error of the last one
    (0 = none failed).  entity_accessors.go:117-121, 163 and response.go:205 `return err`;
    `json.Encoder.Encode` returns the `Write` error as it is, `xml.Encoder.Encode` the sticky error of
    its `bufio.Writer` — unless it ran into an error of its own after the failing flush. -/
def Plan.ret (p : Plan) (made werr : Nat) : Ret :=
  if werr = 0 then (if p.ownErr then .other else .nil)
  else if p.ownErr && p.masked.getD (made - 1) false then .other
  else .writer werr

/-- entity_accessors.go:148 `writeJSON`, :102 `writeXML` -/
def entityPlan (pretty : Bool) (f : Fmt) (status : Nat) (v : Marshalled) : Plan :=
  if v.isNil then ⟨[.hdr status], false, []⟩               -- :149/:103 `if v == nil { WriteHeader; return nil }`
  else match f, pretty with
    | .json, true =>
      match v.prettyJson with
      | none => ⟨[], true, []⟩                               -- :157 error before anything is written
      | some n => ⟨[.hdr status, .wr n], false, []⟩          -- :161-163
    | .xml, true =>
      match v.prettyXml with
      | none => ⟨[], true, []⟩                               -- :111
      | some n => ⟨[.hdr status, .wr xmlHeaderLen, .wr n], false, []⟩   -- :115-121
    | .json, false => ⟨.hdr status :: v.encJson.map .wr, v.encJsonFails, []⟩   -- :167-168
    | .xml, false => ⟨.hdr status :: v.encXml.map .wr, v.encXmlFails, v.encXmlMasked⟩      -- :125-126

/-- response.go:141 `WriteHeaderAndEntity` -/
def headerAndEntityPlan (s : Settings) (status : Nat) (v : Marshalled) : Plan :=
  match s.accept with
  | .none => ⟨[.hdr 406], false, []⟩                         -- :143-146 no writer: 406, returns nil
  | .json => entityPlan s.prettyPrint .json status v     -- entityJSONAccess.Write
  | .xml => entityPlan s.prettyPrint .xml status v       -- entityXMLAccess.Write

def Call.plan (s : Settings) : Call → Plan
  | .prettyPrint _ => ⟨[], false, []⟩
  | .setAccept _ => ⟨[], false, []⟩
  | .setHeader => ⟨[], false, []⟩
  | .writeHeader st => ⟨[.hdr st], false, []⟩
  | .write n => ⟨[.wr n], false, []⟩
  | .writeErrorString st n => ⟨[.hdr st, .wr n], false, []⟩  -- response.go:204-205
  | .writeError st _ n => ⟨[.hdr st, .wr n], false, []⟩      -- :185/:187 → WriteErrorString
  | .writeServiceError st v => headerAndEntityPlan s st v
  | .writeHeaderAndEntity st v => headerAndEntityPlan s st v
  | .writeEntity v => headerAndEntityPlan s 200 v
  | .writeAsJson v => entityPlan s.prettyPrint .json 200 v
  | .writeAsXml v => entityPlan s.prettyPrint .xml 200 v
  | .writeJson v => entityPlan s.prettyPrint .json 200 v
  | .writeHeaderAndJson st v => entityPlan s.prettyPrint .json st v
  | .writeHeaderAndXml st v => entityPlan s.prettyPrint .xml st v

def Call.next (s : Settings) : Call → Settings
  | .prettyPrint b => { s with prettyPrint := b }
  | .setAccept a => { s with accept := a }
  | _ => s

/-- the `err` field after the call (`Error() != nil`) -/
def Call.errAfter (err : Bool) : Call → Bool
  | .writeErrorString _ _ => true                        -- :200-203 set if nil: non-nil afterwards
  | .writeError _ errIsNil _ =>                          -- :183 `r.err = err`, then WriteErrorString
    let e := !errIsNil
    if e then e else true
  | .writeServiceError _ _ => true                       -- :194 a ServiceError value is never nil
  | _ => err

/-- one high-level call: new state, what the underlying writer saw, the error it returned -/
def exec (env : Env) (st : State) (c : Call) : State × List UEvent × Ret :=
  let p := c.plan st.set
  let r := runPrims env { st with err := c.errAfter st.err, set := c.next st.set } p.prims
  (r.1, r.2.1, p.ret (r.1.writes - st.writes) r.2.2)

/-- what is observable after one call -/
structure CallResult where
  events : List UEvent
  /-- `StatusCode()` -/
  status : Nat
  /-- `ContentLength()` -/
  length : Nat
  /-- the error the call returned -/
  ret : Ret
  /-- `Error() != nil` -/
  errSet : Bool
  /-- number of underlying `Write` calls before this call -/
  firstWrite : Nat
  /-- the value handed to the call does not marshal: the marshaller reports an error of its own
      (a fact about the call, not about the writer) -/
  ownErr : Bool
  deriving DecidableEq, Repr

/-- the call returned a non-nil error -/
def CallResult.retErr (r : CallResult) : Bool := r.ret.isErr

def run (env : Env) : State → List Call → List CallResult
  | _, [] => []
  | st, c :: cs =>
    match exec env st c with
    | (st1, evs, e) => ⟨evs, st1.StatusCode, st1.ContentLength, e, st1.err, st.writes, (c.plan st.set).ownErr⟩ :: run env st1 cs

def finalState (env : Env) : State → List Call → State
  | st, [] => st
  | st, c :: cs => finalState env (exec env st c).1 cs

/-- everything the underlying writer received during the sequence -/
def eventsOf (env : Env) : State → List Call → List UEvent
  | _, [] => []
  | st, c :: cs =>
    match exec env st c with
    | (st1, evs, _) => evs ++ eventsOf env st1 cs

/-- the `WriteHeader`/`Write` calls a sequence makes when no `Write` fails -/
def plannedPrims : Settings → List Call → List Prim
  | _, [] => []
  | s, c :: cs => (c.plan s).prims ++ plannedPrims (c.next s) cs

/-- coverage tag of one call: which branch of the Go code it took -/
def Call.tag (s : Settings) : Call → String
  | .prettyPrint _ => "pp"
  | .setAccept _ => "acc"
  | .setHeader => "hd"
  | .writeHeader _ => "wh"
  | .write _ => "w"
  | .writeErrorString _ _ => "wes"
  | .writeError _ _ _ => "we"
  | c =>
    let p := c.plan s
    match p.prims, p.ownErr with
    | [], _ => "ent-marshal-fail"
    | [.hdr 406], false => if s.accept = .none then "ent-406" else "ent-nil"
    | [_], false => "ent-nil"
    | ps, true => if ps.length > 1 then "ent-enc-partial-fail" else "ent-enc-fail"
    | ps, false => if s.prettyPrint then (if ps.length = 3 then "ent-pretty-xml" else "ent-pretty-json")
                   else s!"ent-enc-{ps.length - 1}"

end Resp
end Restful
