/-
Registration state of a `Container` (container.go `Add`, `addHandler`, `Remove`, `Handle`,
`HandleWithFilter`, `ServeHTTP`, `Dispatch`; web_service.go `Route`, `RemoveRoute`) — the code as it
is after commits 81d54c2 ("Remove re-registers the remaining WebServices on the new ServeMux") and
093fa53 ("Add no longer panics for root paths that share their fixed prefix": `addHandler` collects
the ServeMux patterns of the services registered before and adds only the missing ones).

What a request is answered with depends on three things the operations change: the ordered list of
WebServices (with their routes), the ServeMux table, and the flag `isRegisteredOnRoot`.
-/
import Restful.Model.Mux
import Restful.Model.Route
namespace Restful
open Str

namespace Registry

/-- a `*WebService` as the container holds it -/
structure Svc where
  svc : Service
  dynamic : Bool                -- `SetDynamicRoutes`
  deriving DecidableEq, Repr

/-- `WebService.RootPath()` of a service that went through `Path(root)` or the lazy `Path("/")` of `Add` -/
def Svc.root (s : Svc) : Str := s.svc.rootPath

inductive Op where
  | add (s : Svc)                                   -- `c.Add(ws)`
  | remove (root : Str)                             -- `c.Remove(ws)` with `ws.rootPath = root`
  | route (root : Str) (r : RouteDecl)              -- `ws.Route(b)` on the registered service with that root
  | removeRoute (root : Str) (path method : Str)    -- `ws.RemoveRoute(path, method)` on it
  | handle (pattern : Str) (id : Nat)               -- `c.Handle(pattern, h)` / `c.HandleWithFilter`
  deriving DecidableEq, Repr

inductive Panic where
  | exit                              -- `os.Exit(1)`: duplicate root path (container.go:98-101)
  | mux (e : Mux.RegError)            -- panic of `ServeMux.Handle`
  deriving DecidableEq, Repr

structure State where
  router : RouterKind
  services : List Svc                 -- `c.webServices`
  mux : Mux.Table                     -- `c.ServeMux`
  onRoot : Bool                       -- `c.isRegisteredOnRoot`
  live : List (Str × Nat)             -- plain handlers registered on the CURRENT ServeMux
  handlers : List (Str × Nat)         -- every plain handler registered so far (what the user holds)
  deriving DecidableEq, Repr

def init (k : RouterKind) : State :=
  { router := k, services := [], mux := [], onRoot := false, live := [], handlers := [] }

/-- container.go:306 `fixedPrefixPath` -/
def fixedPrefixPath (pathspec : Str) : Str :=
  match index '{' pathspec with
  | none => pathspec
  | some i => pathspec.take i

def reg (t : Mux.Table) (p : Str) (h : Mux.Target) : Except Panic Mux.Table :=
  match Mux.register t p h with
  | .ok t' => .ok t'
  | .error e => .error (.mux e)

/-- what one WebService given to `addHandler` before contributes to the map `mapped`
    (container.go:126-132): its pattern `fixedPrefixPath(each.RootPath())`, and that pattern + "/"
    when it does not end in "/" -/
def mappedOf (root : Str) : List Str :=
  let other := fixedPrefixPath root
  if hasSuffix ['/'] other then [other] else [other, other ++ ['/']]

/-- the keys of `mapped` (container.go:125-132) for the services `registered` -/
def mapped (registered : List Svc) : List Str := registered.flatMap fun each => mappedOf each.root

/-- container.go:117 `addHandler`; `registered` are the WebServices that were given to `addHandler`
    for this ServeMux before (`c.webServices` in `Add`, `newServices` so far in `Remove`).  Each of
    the two patterns of the service is registered iff it is missing from `mapped`; the root case
    registers "/" without looking at `mapped`. -/
def addHandler (registered : List Svc) (s : Svc) (t : Mux.Table) : Except Panic (Mux.Table × Bool) :=
  let pattern := fixedPrefixPath s.root
  if pattern = ['/'] ∨ pattern = [] then
    match reg t ['/'] .dispatch with
    | .ok t' => .ok (t', true)
    | .error e => .error e
  else
    let m := mapped registered
    -- container.go:133 `if !mapped[pattern]`
    match (if m.contains pattern then .ok t else reg t pattern .dispatch) with
    | .error e => .error e
    | .ok t' =>
      -- container.go:136 `if !strings.HasSuffix(pattern, "/") && !mapped[pattern+"/"]`
      if !hasSuffix ['/'] pattern && !m.contains (pattern ++ ['/']) then
        match reg t' (pattern ++ ['/']) .dispatch with
        | .ok t'' => .ok (t'', false)
        | .error e => .error e
      else .ok (t', false)

/-- the loop of container.go:154-162 (`Remove`): `news` is `newServices` so far (what `addHandler`
    gets as `registered`), `t` the new ServeMux, `r` is `newIsRegisteredOnRoot` -/
def rebuild (root : Str) : List Svc → List Svc → Mux.Table → Bool → Except Panic (Mux.Table × Bool)
  | [], _, t, r => .ok (t, r)
  | each :: rest, news, t, r =>
    if each.root != root then
      if !r then
        match addHandler news each t with
        | .ok (t', r') => rebuild root rest (news ++ [each]) t' r'
        | .error e => .error e
      else rebuild root rest (news ++ [each]) t r
    else rebuild root rest news t r

/-- web_service.go:181 `Route` -/
def Svc.addRoute (s : Svc) (r : RouteDecl) : Svc := { s with svc := { s.svc with routes := s.svc.routes ++ [r] } }

/-- web_service.go:190 `RemoveRoute`: `route.Path` is the full path `concatPath(root, rel)` -/
def Svc.dropRoute (s : Svc) (path method : Str) : Svc :=
  if !s.dynamic then s else
  let keep := s.svc.routes.filter (fun r => !(r.method == method && concatPath s.svc.rootPath r.relPath == path))
  { s with svc := { s.svc with routes := keep } }

def onService (root : Str) (f : Svc → Svc) (l : List Svc) : List Svc :=
  l.map fun s => if s.root == root then f s else s

def step (st : State) : Op → Except Panic State
  | .add s =>
    -- container.go:98 duplicate root paths
    if st.services.any (fun each => each.root == s.root) then .error .exit
    else if st.onRoot then .ok { st with services := st.services ++ [s] }
    else
      match addHandler st.services s st.mux with
      | .ok (t, r) => .ok { st with mux := t, onRoot := r, services := st.services ++ [s] }
      | .error e => .error e
  | .remove root =>
    match rebuild root st.services [] [] false with
    | .ok (t, r) =>
      .ok { st with services := st.services.filter (fun each => each.root != root), mux := t, onRoot := r, live := [] }
    | .error e => .error e
  | .route root r => .ok { st with services := onService root (·.addRoute r) st.services }
  | .removeRoute root path method => .ok { st with services := onService root (·.dropRoute path method) st.services }
  | .handle p id =>
    match reg st.mux p (.plain id) with
    | .ok t => .ok { st with mux := t, live := st.live ++ [(p, id)], handlers := st.handlers ++ [(p, id)] }
    | .error e => .error e

def runFrom (st : State) : List Op → Except Panic State
  | [] => .ok st
  | op :: ops =>
    match step st op with
    | .ok st' => runFrom st' ops
    | .error e => .error e

def run (k : RouterKind) (ops : List Op) : Except Panic State := runFrom (init k) ops

/-- index of the operation that panicked, with the state it panicked in -/
def runIdx (st : State) (i : Nat) : List Op → Except (Nat × State × Panic) State
  | [] => .ok st
  | op :: ops =>
    match step st op with
    | .ok st' => runIdx st' (i + 1) ops
    | .error e => .error (i, st, e)

/-- what the user of the container holds at the end: services (with routes) in order, plain handlers -/
structure Content where
  router : RouterKind
  services : List Svc
  handlers : List (Str × Nat)
  deriving DecidableEq, Repr

def content (st : State) : Content := ⟨st.router, st.services, st.handlers⟩

def Content.ops (c : Content) : List Op :=
  c.services.map .add ++ c.handlers.map fun h => .handle h.1 h.2

/-- a new container, the services added in order, then the plain handlers registered -/
def fresh (c : Content) : Except Panic State := run c.router c.ops

inductive Entry where
  | dispatch | serveHTTP
  deriving DecidableEq, Repr

inductive Answer where
  | routed (o : Outcome)              -- `c.dispatch` ran: route function / 404 / 405 / 415 / 406
  | plain (id : Nat)                  -- a handler registered with `Handle`
  | notFound                          -- the mux's own 404
  | redirect (location : Str)         -- the mux's 301
  | noContainer                       -- the container could not be built (registration panicked)
  deriving DecidableEq, Repr

variable (E : ReEnv)

def State.config (st : State) : Config := ⟨st.router, st.services.map (·.svc)⟩

/-- container.go:199 `Dispatch`, container.go:315 `ServeHTTP` -/
def answer (st : State) (e : Entry) (req : Req) : Answer :=
  match e with
  | .dispatch => .routed (route E st.config req)
  | .serveHTTP =>
    match Mux.lookup st.mux req.method req.path with
    | .redirect loc => .redirect loc
    | .notFound => .notFound
    | .target .dispatch => .routed (route E st.config req)
    | .target (.plain id) => .plain id

def answerOf (r : Except Panic State) (e : Entry) (req : Req) : Answer :=
  match r with
  | .ok st => answer E st e req
  | .error _ => .noContainer

end Registry
end Restful
