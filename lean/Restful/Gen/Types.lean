/- the vocabulary of the generated facts (tools/gofacts → Restful/Gen/Facts.lean) -/
namespace Restful.Gen

inductive Mode where
  | R | W
  deriving DecidableEq, Repr

inductive Op where
  | acq (lock : Nat) (m : Mode)        -- x.Lock() / x.RLock()
  | rel (lock : Nat) (m : Mode)        -- x.Unlock() / x.RUnlock()
  | deferRel (lock : Nat) (m : Mode)   -- defer x.Unlock() / x.RUnlock()
  | read (field : Nat)
  | write (field : Nat)
  | call (fns : List Nat)              -- a call, resolved by method name to every function of that name
  | deferCall (what : String)
  | chanTryRecv (ch : Nat)             -- select { case x = <-ch: … default: … }
  | chanTrySend (ch : Nat)             -- select { case ch <- x: … default: … }
  | chanSend (ch : Nat)                -- ch <- x          (may block)
  | chanRecv (ch : Nat)                -- <-ch             (may block)
  | chanLen (ch : Nat)                 -- len(ch)
  | assignNil (field : String)
  | aliasAppend (text : String)         -- `x := append(obj.field, …)`: x may share obj.field's backing array
  | goStmt (what : String)
  | unknown (text : String)            -- anything touching a lock / channel / tracked field in an unrecognised shape
  deriving DecidableEq, Repr

/-- one fact, in source order within its function -/
structure Item where
  fn : Nat
  op : Op
  depth : Nat          -- func-literal nesting depth
  inline : Bool        -- the enclosing func literal runs on the spot (`func(){…}()` or deferred)
  nonDynamic : Bool    -- under the condition `!w.dynamicRoutes` (outside the quantifier of C12)
  deriving DecidableEq, Repr

end Restful.Gen
