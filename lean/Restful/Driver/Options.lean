/- protocol handler of C17: `(allow id cfg req (methods m…) obs)` -/
import Restful.Driver.Routing
import Restful.Spec.Options
import Restful.Spec.Common
import Restful.Spec.Cors
namespace Restful.Driver.OptionsP
open Restful.Driver SExp

def decProbe : SExp → Option (Str × Nat × Option (List Str))
  | .list [.atom "p", m, st, .atom "-"] => do pure (← asStr m, ← asNat st, none)
  | .list [.atom "p", m, st, al] => do pure (← asStr m, ← asNat st, some (← strs "allow" al))
  | _ => none

def decAllowObs (e : SExp) : Option Spec.AllowObs := do
  match ← args "obs" e with
  | [probes, oa, acam, ran, untouched] =>
    pure { probes := ← (← args "probes" probes).mapM decProbe, optAllow := ← strs "optallow" oa, optACAM := ← strs "acam" acam,
           optHandlerRan := ← asBool ran, othersUntouched := ← asBool untouched }
  | _ => none

/-- model: the status of every probed method, the computed methods of the OPTIONS filter; spec on
    the real observation; the classes of the open findings -/
def handleAllow : SExp → Option String
  | .list [.atom "allow", .atom id, c, r, ms, o] =>
    match decCfg c, decReq r, strs "methods" ms, decAllowObs o with
    | some cfg, some req, some methods, some obs =>
      let statuses := methods.map fun m =>
        match route implEnv cfg { req with method := m } with
        | .error 405 (some al) => s!"(p {hex m} 405 (allow {strList al}))"
        | out => s!"(p {hex m} {Spec.statusOf out} -)"
      let computed := match Cors.computeAllowedMethods implEnv cfg.services req.path with
        | some l => s!"(computed {strList l})"
        | none => "(computed-none)"
      some (s!"(out {id} (probes {" ".intercalate statuses}) {computed}"
        ++ specLine "C17" (Spec.c17Holds obs)
        ++ specLine "severalRootsMatch" (Spec.severalRootsMatch implEnv cfg req.path)
        ++ specLine "normalPath" (Spec.normalPath req.path)
        ++ specLine "wfCommon" (Spec.wfCommon cfg) ++ ")")
    | _, _, _, _ => some s!"(bad-allow {id})"
  | _ => none

end Restful.Driver.OptionsP

namespace Restful.Driver
def handleAllow := OptionsP.handleAllow
end Restful.Driver
