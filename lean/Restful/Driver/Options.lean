/- protocol handler of C17: `(allow id cfg req (methods m…) obs [(preflights (pf acrm (allow m…) (acam m…) ran)…)])` -/
import Restful.Driver.Routing
import Restful.Spec.Options
import Restful.Spec.Common
import Restful.Spec.Cors
namespace Restful.Driver.OptionsP
open Restful.Driver SExp

def decProbe : SExp → Option (Str × Nat × Option (List Str))
  | .list [.atom "p", m, st, .atom "-"] => do pure (← asStr m, ← asNat st, none)
  | .list [.atom "p", m, st, al] => do pure (← asStr m, ← asNat st, some (← strs "allow" al))
  | _ => none

def decAllowObs (e : SExp) : Option Spec.AllowObs := do
  match ← args "obs" e with
  | [probes, oa, acam, ran, untouched] =>
    pure { probes := ← (← args "probes" probes).mapM decProbe, optAllow := ← strs "optallow" oa, optACAM := ← strs "acam" acam,
           optHandlerRan := ← asBool ran, othersUntouched := ← asBool untouched }
  | _ => none

/-- `(pf acrm (allow m…) (acam m…) ran)`: one OPTIONS probe that carried Access-Control-Request-Method -/
def decPreflight (e : SExp) : Option Spec.PreflightObs := do
  match ← args "pf" e with
  | [a, al, acam, ran] => pure { acrm := ← asStr a, allow := ← strs "allow" al, acam := ← strs "acam" acam, handlerRan := ← asBool ran }
  | _ => none

def decPreflights (e : SExp) : Option (List Spec.PreflightObs) := do (← args "preflights" e).mapM decPreflight

/-- model: the status of every probed method, the computed methods of the OPTIONS filter; spec on
    the real observation; the classes of the open findings -/
def answerAllow (id : String) (c r ms o : SExp) (pfs : Option (List Spec.PreflightObs)) : Option String :=
    match decCfg c, decReq r, strs "methods" ms, decAllowObs o, pfs with
    | some cfg, some req, some methods, some obs, some pfs =>
      let statuses := methods.map fun m =>
        match route implEnv cfg { req with method := m } with
        | .error 405 (some al) => s!"(p {hex m} 405 (allow {strList al}))"
        | out => s!"(p {hex m} {Spec.statusOf out} -)"
      let computed := match Cors.computeAllowedMethods implEnv cfg.services req.path with
        | some l => s!"(computed {strList l})"
        | none => "(computed-none)"
      -- the model's answers to the preflight probes: the lists of `Spec.modelPreflight`, in order
      let mpf := pfs.map fun p =>
        let m := Spec.modelPreflight implEnv cfg req p.acrm
        s!"(pf {hex p.acrm} (allow {strList m.allow}) (acam {strList m.acam}) {if m.handlerRan then 1 else 0})"
      some (s!"(out {id} (probes {" ".intercalate statuses}) {computed} (preflights {" ".intercalate mpf})"
        ++ specLine "C17" (Spec.c17HoldsAll obs pfs)
        ++ specLine "C17bare" (Spec.c17Holds obs)
        ++ specLine "severalRootsMatch" (Spec.severalRootsMatch implEnv cfg req.path)
        ++ specLine "normalPath" (Spec.normalPath req.path)
        ++ specLine "wfCommon" (Spec.wfCommon cfg) ++ ")")
    | _, _, _, _, _ => some s!"(bad-allow {id})"

def handleAllow : SExp → Option String
  | .list [.atom "allow", .atom id, c, r, ms, o] => answerAllow id c r ms o (some [])
  | .list [.atom "allow", .atom id, c, r, ms, o, pfs] => answerAllow id c r ms o (decPreflights pfs)
  | _ => none

end Restful.Driver.OptionsP

namespace Restful.Driver
def handleAllow := OptionsP.handleAllow
end Restful.Driver
