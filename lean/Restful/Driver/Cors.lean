/-
Protocol handler of the CORS slice (C08, C09).  One line = one filter configuration + one route
table + a SEQUENCE of requests through that one filter value, each with what the harness observed
on the real container and its twin:

  (cors <id>
     (filter (expose h…) (aheaders h…) (domains h…) (pred none | pred some h…) (methods h…) <maxAge> <cookies>)
     (cfg <router> (svc …)…)
     (reqs (rq <method> <path> <origin> <acrm> <acrh>
               (obs <reached> (extra (h <name> <value>)…) <missing> <status> <twinStatus> <bodySame> <logSame> <later>))…))

Between two `(rq …)` items the list may hold a `(cfg <router> (svc …)…)` item: the route table of the
container was changed there (ws.Route / ws.RemoveRoute on a registered WebService) and every request
behind it is answered — model and predicates — from that table (`Cors.corsSeqT`).

The user predicate travels as data: `(pred some h…)` is the function "the argument is one of these
strings" (exact comparison); the harness installs the very same function as `AllowedDomainFunc`.

Answer: `(out <id> (r (added (h n v)…) <passOn> (tag t) (c08 b) (c09 b) (allowed b) (nroots k))… (spec C08 b) (spec C09 b))`
— the model's outcome per request (through `Cors.corsSeqT`, i.e. one filter value for the whole
history) and both property predicates evaluated on the REAL observations.
-/
import Restful.Driver.Routing
import Restful.Model.Cors
import Restful.Spec.Cors
namespace Restful.Driver.CorsP
open SExp Cors

def decPred : SExp → Option (Option (Str → Bool))
  | .list [.atom "pred", .atom "none"] => some none
  | .list (.atom "pred" :: .atom "some" :: xs) => do
    let acc ← xs.mapM asStr
    pure (some (fun o => acc.contains o))
  | _ => none

def decFilter (e : SExp) : Option CorsCfg := do
  match ← args "filter" e with
  | [ex, ah, dom, pr, ms, age, ck] =>
    pure { exposeHeaders := ← strs "expose" ex, allowedHeaders := ← strs "aheaders" ah, allowedDomains := ← strs "domains" dom,
           pred := ← decPred pr, allowedMethods := ← strs "methods" ms, maxAge := ← asInt age, cookies := ← asBool ck }
  | _ => none

def decHdr (e : SExp) : Option (Str × Str) := do
  match ← args "h" e with
  | [n, v] => pure (← asStr n, ← asStr v)
  | _ => none

def decObs (e : SExp) : Option Spec.CorsObs := do
  match ← args "obs" e with
  | [reached, extra, missing, st, tst, body, log, later] =>
    let hs ← args "extra" extra
    pure { reached := ← asBool reached, extra := ← hs.mapM decHdr, missing := ← asNat missing, status := ← asNat st,
           twinStatus := ← asNat tst, bodySame := ← asBool body, logSame := ← asBool log, later := ← asBool later }
  | _ => none

def decCorsReq (e : SExp) : Option (CorsReq × Spec.CorsObs) := do
  match ← args "rq" e with
  | [m, p, o, acrm, acrh, obs] =>
    pure ({ method := ← asStr m, path := ← asStr p, origin := ← asStr o, acrm := ← asStr acrm, acrh := ← asStr acrh }, ← decObs obs)
  | _ => none

/-- the items of `(reqs …)`: every request with the table in force when it was sent -/
def decItems : Config → List SExp → Option (List (Config × CorsReq × Spec.CorsObs))
  | _, [] => some []
  | tbl, e :: rest =>
    match e with
    | .list (.atom "cfg" :: _) => do decItems (← decCfg e) rest
    | _ => do
      let (rq, obs) ← decCorsReq e
      pure ((tbl, rq, obs) :: (← decItems tbl rest))

def b01 (b : Bool) : String := if b then "1" else "0"

def encAdded (hs : List (Str × Str)) : String :=
  "(added" ++ String.join (hs.map fun (n, v) => s!" (h {hex n} {hex v})") ++ ")"

/-- which exit of `Filter` the model took (coverage tag) -/
def corsTag (cc : CorsCfg) (tbl : Config) (rq : CorsReq) : String :=
  if rq.origin.isEmpty then "no-origin"
  else if !Spec.originAllowed Str.toLowerAscii cc rq.origin then "denied"
  else if !Spec.isPreflight rq then (if rq.method == sOPTIONS then "actual-options" else "actual")
  else
    let ms := Spec.methodsFor implEnv cc tbl rq.path
    let kind := if cc.allowedMethods.isEmpty then "computed" else "configured"
    if !ms.contains rq.acrm then s!"preflight-{kind}-bad-method"
    else if !(Spec.requestedHeaders rq.acrh).all (Spec.headerAllowed Str.toLowerAscii cc.allowedHeaders) then s!"preflight-{kind}-bad-header"
    else if rq.acrh.isEmpty then s!"preflight-{kind}-granted-noheaders"
    else s!"preflight-{kind}-granted"

/-- number of services whose root expression matches the URL (≥ 2 = the class of finding F14) -/
def nRoots (tbl : Config) (path : Str) : Nat := Spec.rootsMatching implEnv tbl path

def handleCors (e : SExp) : Option String :=
  match e with
  | .list [.atom "cors", .atom id, f, c, rs] =>
    some <| match decFilter f, (decCfg c).bind (fun tbl => (args "reqs" rs).bind (decItems tbl)) with
    | some cc, some reqs =>
      let lower := Str.toLowerAscii
      let outs := corsSeqT lower implEnv cc (reqs.map fun (tbl, rq, _) => (tbl, rq))
      let per := (reqs.zip outs).map fun ((tbl, rq, obs), out) =>
        let c08 := Spec.c08Holds lower cc rq obs
        let c09 := Spec.c09Holds lower implEnv cc tbl rq obs
        let body := match out with
          | some o => s!"{encAdded o.added} {b01 o.passOn}"
          | none => "notable"
        (s!"(r {body} (tag {corsTag cc tbl rq}) (c08 {b01 c08}) (c09 {b01 c09}) (allowed {b01 (Spec.originAllowed lower cc rq.origin)}) (nroots {nRoots tbl rq.path}))",
          c08, c09)
      let all08 := per.all (·.2.1)
      let all09 := per.all (·.2.2)
      s!"(out {id} " ++ " ".intercalate (per.map (·.1)) ++ specLine "C08" all08 ++ specLine "C09" all09 ++ ")"
    | _, _ => s!"(bad-cors {id})"
  | _ => none

end Restful.Driver.CorsP

namespace Restful.Driver
/-- the CORS slice's protocol handler (its helpers live in `Restful.Driver.CorsP`) -/
def handleCors : SExp → Option String := CorsP.handleCors
end Restful.Driver
