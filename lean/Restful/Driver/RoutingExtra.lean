/- stateless helpers of the routing family: outcome comparison (C03, C14, C18), table classes -/
import Restful.Driver.Routing
import Restful.Spec.Order
import Restful.Spec.Slash
import Restful.Spec.Common
namespace Restful.Driver
open SExp

/-- `(same id o1 o2)` → are two observed outcomes the same for a client (Spec.sameOutcomeB) -/
def handleSame : SExp → Option String
  | .list [.atom "same", .atom id, a, b] =>
    match decOutcome a, decOutcome b with
    | some x, some y => some s!"(out {id}{specLine "SAME" (Spec.sameOutcomeB x y)})"
    | _, _ => some s!"(bad-same {id})"
  | _ => none

/-- `(class id cfg req)` → the decidable table/request classes used as theorem hypotheses and as
    known-finding classes -/
def handleClass : SExp → Option String
  | .list [.atom "class", .atom id, c, r] =>
    match decCfg c, decReq r with
    | some cfg, some req =>
      some (s!"(out {id}" ++ specLine "WF" cfg.wfTemplates
        ++ specLine "distinctMethodPath" (Spec.distinctMethodPathB cfg)
        ++ specLine "scoresSeparate" (Spec.scoresSeparateB cfg req)
        ++ specLine "sameShapeRoots" (Spec.hasSameShapeRoots cfg)
        ++ specLine "jsrSlashSafe" (Spec.jsrSlashSafeB implEnv cfg)
        ++ specLine "jsrHasWildcard" (Spec.jsrHasWildcard cfg)
        ++ specLine "wfCommon" (Spec.wfCommon cfg) ++ specLine "rootsDistinct" (Spec.rootsDistinct cfg)
        ++ specLine "rootsClean" (Spec.rootsClean cfg) ++ specLine "routeIdsDistinct" (Spec.routeIdsDistinct cfg)
        ++ specLine "normalPath" (Spec.normalPath req.path) ++ specLine "ranksAgree" (Spec.ranksAgree implEnv cfg req) ++ ")")
    | _, _ => some s!"(bad-class {id})"
  | _ => none

end Restful.Driver
