/- protocol handler of the serve family (C06, C07, C10, C19): `(serve id scfg (hist (h entry sreq real)…))` -/
import Restful.Driver.Routing
import Restful.Model.Serve
import Restful.Spec.Serve
namespace Restful.Driver.ServeP
open Restful.Driver SExp Serve

def decServeAct : SExp → Option Act
  | .list [.atom "w", b] => do pure (.write (← asStr b))
  | .list [.atom "wh", n] => do pure (.writeHeader (← asNat n))
  | .list [.atom "ah", k, v] => do pure (.addHeader (← asStr k) (← asStr v))
  | .list [.atom "sa", k, v] => do pure (.setAttr (← asStr k) (← asStr v))
  | .list [.atom "panic", v] => do pure (.panic (← asStr v))
  | _ => none

def decServeActs (kw : String) (e : SExp) : Option (List Act) := do (← args kw e).mapM decServeAct

def decServeKind : SExp → Option FKind
  | .atom "pass" => some .pass
  | .atom "stop" => some .stop
  | .atom "replace" => some .replace
  | .atom "middle" => some .middle
  | _ => none

def decServeFilter (e : SExp) : Option Filter := do
  match ← args "f" e with
  | [id, k, pre, post] => pure { id := ← asNat id, kind := ← decServeKind k, pre := ← decServeActs "pre" pre, post := ← decServeActs "post" post }
  | _ => none

def decOptBool : SExp → Option (Option Bool)
  | .atom "-" => some none
  | .atom "0" => some (some false)
  | .atom "1" => some (some true)
  | _ => none

def decRouteX (e : SExp) : Option RouteX := do
  match ← args "rx" e with
  | id :: enc :: script :: fs =>
    pure { id := ← asNat id, enc := ← decOptBool enc, script := ← decServeActs "script" script, filters := ← fs.mapM decServeFilter }
  | _ => none

def decSvcX (e : SExp) : Option SvcX := do
  match ← args "sx" e with
  | id :: fs => pure { id := ← asNat id, filters := ← fs.mapM decServeFilter }
  | _ => none

def decSCfg (e : SExp) : Option Cfg := do
  match ← args "scfg" e with
  | [routing, enc, recov, rscript, plain, cf, svcs, routes, cerr] =>
    let rs ← match rscript with
      | .atom "-" => pure none
      | e => (decServeActs "rscript" e).map some
    pure { routing := ← decCfg routing, encoding := ← asBool enc, recover := ← asBool recov, recoverScript := rs,
           plainScript := ← decServeActs "plain" plain, cfilters := ← (← args "cf" cf).mapM decServeFilter,
           svcs := ← (← args "svcs" svcs).mapM decSvcX, routes := ← (← args "routes" routes).mapM decRouteX,
           customErr := ← asBool cerr }
  | _ => none

def decServeEntry : SExp → Option Entry
  | .atom "dispatch" => some .dispatch
  | .atom "serveDispatch" => some .serveDispatch
  | .atom "muxHandle" => some .muxHandle
  | .atom "serveHandle" => some .serveHandle
  | .atom "muxHandleF" => some .muxHandleF
  | .atom "serveHandleF" => some .serveHandleF
  | _ => none

def decSReq (e : SExp) : Option SReq := do
  match ← args "sreq" e with
  | [r, ae, pe, cp] =>
    let cpv ← match cp with
      | .atom "-" => pure none
      | x => (asStr x).map some
    pure { req := ← decReq r, acceptEncoding := ← asStr ae, priorEncoding := ← asStr pe, condPanic := cpv }
  | _ => none

def encServeStage : Serve.Stage → String
  | .cfilter i => s!"cf{i}"
  | .sfilter i => s!"sf{i}"
  | .rfilter i => s!"rf{i}"
  | .handler r => s!"h{r}"
  | .plain _ => "plain"
  | .errorWriter => "err"
  | .recover => "rec"

def encServeKV (kw : String) (l : List (Str × Str)) : String :=
  s!"({kw}" ++ String.join (l.map fun (k, v) => s!" ({hex k} {hex v})") ++ ")"

def encServeEvent (e : Event) : String :=
  s!"(ev {encServeStage e.stage} {if e.post then 1 else 0} {encServeKV "attrs" e.attrs} {encServeKV "params" e.params} {hex e.selPath} (wr" ++
    String.join (e.wrappers.map fun w => s!" {w}") ++ "))"

/-- the observable projection of a result -/
def encServeResult (r : Result) : String :=
  let status := (r.rc.status.getD 200)
  let sent := r.rc.sent.getD r.rc.headers
  let ce := match sent.find? (fun kv => kv.1 = "Content-Encoding".toList) with
    | some kv => kv.2
    | none => []
  let (body, complete) : Str × Bool := match r.rc.comp with
    | none => (r.rc.body, true)
    | some c => (c.payload, c.closed)
  let coded := r.rc.comp.isSome
  s!"(res (st {status}) (ce {hex ce}) (coded {if coded then 1 else 0}) (body {hex body}) (complete {if complete then 1 else 0}) {encServeKV "hdr" sent} (log" ++
    String.join (r.log.map fun e => " " ++ encServeEvent e) ++ s!") (esc {match r.escaped with | some v => hex v | none => "none"}) (recov {r.recoverCalls}) (acq {r.world.acquired}) (rel {r.world.released}))"

def decStageAtom (a : String) : Option Serve.Stage :=
  if a == "plain" then some (.plain 0)
  else if a == "err" then some .errorWriter
  else if a == "rec" then some .recover
  else if a.startsWith "cf" then (a.drop 2).toNat?.map .cfilter
  else if a.startsWith "sf" then (a.drop 2).toNat?.map .sfilter
  else if a.startsWith "rf" then (a.drop 2).toNat?.map .rfilter
  else if a.startsWith "h" then (a.drop 1).toNat?.map .handler
  else none

def decKVs (kw : String) (e : SExp) : Option (List (Str × Str)) := do
  (← args kw e).mapM fun kv =>
    match kv with
    | .list [k, v] => do pure (← asStr k, ← asStr v)
    | _ => none

def decEvent : SExp → Option Event
  | .list [.atom "ev", .atom st, post, attrs, params, sp, wr] => do
    pure { stage := ← decStageAtom st, post := ← asBool post, attrs := ← decKVs "attrs" attrs, params := ← decKVs "params" params,
           selPath := ← asStr sp, wrappers := ← (← args "wr" wr).mapM asNat }
  | _ => none

def arg1 (kw : String) (e : SExp) : Option SExp := do
  match ← args kw e with
  | [x] => pure x
  | _ => none

def decObs (e : SExp) : Option Spec.Obs := do
  match ← args "real" e with
  | st :: ce :: coded :: body :: complete :: hdr :: lg :: esc :: recov :: acq :: rel :: dbl :: more =>
    let escv ← match ← arg1 "esc" esc with
      | .atom "none" => pure none
      | x => (asStr x).map some
    -- `(recovd n)`: calls of the library's own recover handler, counted through the package logger.
    -- A line recorded before the field existed has 12 entries and still parses: the count is then 0
    -- ("no such call was observed").
    let recovd ← match more with
      | [] => pure 0
      | [rd] => do asNat (← arg1 "recovd" rd)
      | _ => none
    pure { status := ← asNat (← arg1 "st" st), ce := ← asStr (← arg1 "ce" ce), coded := ← asBool (← arg1 "coded" coded),
           body := ← asStr (← arg1 "body" body), complete := ← asBool (← arg1 "complete" complete), hdr := ← decKVs "hdr" hdr,
           log := ← (← args "log" lg).mapM decEvent, escaped := escv, recov := ← asNat (← arg1 "recov" recov),
           acq := ← asNat (← arg1 "acq" acq), rel := ← asNat (← arg1 "rel" rel), dbl := ← asNat (← arg1 "dbl" dbl),
           recovDefault := recovd }
  | _ => none

/-- a request that the installed RouteSelector (a wrapper of the harness around the built-in router)
    refuses with a plain error value: `Serve.serveRouterError`; of the predicates only C06 (its
    sentence about requests that fail routing) and the model-free C13 are evaluated — such requests
    are generated by the C06 check only -/
def routerErr (cfg : Cfg) (viaServeHTTP : Bool) (sr : SExp) (rest : List SExp) : String :=
  match decSReq sr with
  | some sreq =>
    let res := encServeResult (serveRouterError cfg viaServeHTTP {} sreq)
    let specs := match rest with
      | [real] =>
        match decObs real with
        | some o => specLine "C06" (Spec.c06RouterErrorHolds cfg o) ++ specLine "C13" (Spec.c13Holds o)
        | none => " (spec BADOBS 0)"
      | _ => ""
    (res.dropEnd 1).toString ++ specs ++ ")"
  | none => "(bad-h)"

/-- `(serve id scfg (hist (h entry sreq real?) …))` → one `(res …)` per request, each served on a fresh
    ledger, with the serve predicates evaluated on the REAL observation when one is given -/
def handleServe : SExp → Option String
  | .list [.atom "serve", .atom id, c, h] =>
    match decSCfg c, args "hist" h with
    | some cfg, some hs =>
      let outs := hs.map fun e =>
        match e with
        | .list (.atom "h" :: .atom "routerErr" :: sr :: rest) => routerErr cfg false sr rest
        | .list (.atom "h" :: .atom "serveRouterErr" :: sr :: rest) => routerErr cfg true sr rest
        | .list (.atom "h" :: en :: sr :: rest) =>
          match decServeEntry en, decSReq sr with
          | some entry, some sreq =>
            let res := encServeResult (serve implEnv cfg entry {} sreq)
            let specs := match rest with
              | [real] =>
                match decObs real with
                | some o => specLine "C06" (Spec.c06Holds implEnv cfg entry sreq o) ++ specLine "C07" (Spec.c07Holds implEnv cfg entry sreq o)
                    ++ specLine "C10" (Spec.c10Holds implEnv cfg entry sreq o) ++ specLine "C13" (Spec.c13Holds o)
                    ++ specLine "F09" (Spec.f09Class implEnv cfg entry sreq) ++ specLine "F18" (Spec.f18Class implEnv cfg entry sreq)
                | none => " (spec BADOBS 0)"
              | _ => ""
            (res.dropEnd 1).toString ++ specs ++ ")"
          | _, _ => "(bad-h)"
        | _ => "(bad-h)"
      some (s!"(out {id}" ++ String.join (outs.map (" " ++ ·)) ++ ")")
    | _, _ => some s!"(bad-serve {id})"
  | _ => none

end Restful.Driver.ServeP

namespace Restful.Driver
def handleServe := ServeP.handleServe
end Restful.Driver
