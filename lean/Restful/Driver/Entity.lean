/-
Protocol handler of the C16 slice.  One line = one history of `ReadEntity` calls on one provider:

  (entity <id>
    (cfg (prov sync | bounded <cap>) (dflt <hex>) (reg (k <hexkey> json|xml)…))
    (rd (ct <hex>) (ce <hex>) (kind json|xml) (w <hexcanon>) (faithful 0|1)
        (id <clean> <jres> <jdoc> <xres> <xdoc>)            -- the body read as it is
        (gz <clean> <jres> <jdoc> <xres> <xdoc>)            -- through a fresh gzip.Reader (header error: clean 0, nothing delivered)
        (zl <hdr> <clean> <jres> <jdoc> <xres> <xdoc>)      -- through zlib.NewReader (hdr 0: it returned an error)
        (real <obs>) (alone <obs>) (ev <a|u|r letters, ->) (rid <n>|-))
    …)

  <clean>      0|1: the stream ends with a clean EOF
  <jres>/<xres>  e | (ok <hexcanon>): encoding/json (UseNumber) / encoding/xml on that very stream
  <jdoc>/<xdoc>  the same decoder on the delivered bytes followed by a clean EOF
  <obs>        (ok <hexcanon>) | err400 | err | panic

The body itself does not travel: the model never looks into bytes, so a body is a token and the
codec of the model is the table of facts the harness measured with the standard library alone.
The answer gives, per read, the result of the model (one on every registry with distinct keys), the
decoder and lookup path taken, the ledger and the reader object, the spec predicate on the REAL
observation and two classes, both of REPAIRED findings: f62 (F62, repaired by 8b400b4) and f61 (F61,
repaired by 75d0593) — coverage only: the check counts how often its stream visits them; they
excuse nothing:

  (out <id> (r (res <result>…) (dec gzip|deflate|identity) (acc <lookup>) (ev …) (rid …) (tag …) (s 0|1) (cl <6 clause bits>) (f61 0|1) (f62 0|1))… (spec C16 0|1) (wf 0|1))
-/
import Restful.Driver.SExp
import Restful.Model.Entity
import Restful.Spec.Entity
namespace Restful.Driver.EntityP
open Restful.Driver SExp Entity Spec.C16

/-- decoder results on one stream -/
structure StreamFacts where
  hdr : Bool
  clean : Bool
  jres : Option Str
  jdoc : Option Str
  xres : Option Str
  xdoc : Option Str

structure ReadLine where
  obs : ReadObs            -- `facts` filled by `declaredFacts`
  idF : StreamFacts
  gzF : StreamFacts
  zlF : StreamFacts
  rid : Option Nat

def decRes : SExp → Option (Option Str)
  | .atom "e" => some none
  | .list [.atom "ok", v] => do pure (some (← asStr v))
  | _ => none

def decStreamFacts (kw : String) (e : SExp) : Option StreamFacts := do
  match ← args kw e with
  | [c, jr, jd, xr, xd] => pure ⟨true, ← asBool c, ← decRes jr, ← decRes jd, ← decRes xr, ← decRes xd⟩
  | [h, c, jr, jd, xr, xd] => pure ⟨← asBool h, ← asBool c, ← decRes jr, ← decRes jd, ← decRes xr, ← decRes xd⟩
  | _ => none

def decObs : SExp → Option Obs
  | .atom "err400" => some .err400
  | .atom "err" => some .err
  | .atom "panic" => some .panic
  | .list [.atom "ok", v] => do pure (.ok (← asStr v))
  | _ => none

def decKind : SExp → Option Kind
  | .atom "json" => some .json
  | .atom "xml" => some .xml
  | _ => none

def decEvents : SExp → Option (List Ev)
  | .atom "-" => some []
  | .atom s => s.toList.mapM fun c => if c = 'a' then some Ev.acquire else if c = 'u' then some .use else if c = 'r' then some .release else none
  | _ => none

def one (kw : String) (e : SExp) : Option SExp := do
  match ← args kw e with
  | [x] => some x
  | _ => none

/-- the facts about the coding the `Content-Encoding` value DECLARES (exactly "gzip" / "deflate") -/
def declaredFacts (ce : Str) (idF gzF zlF : StreamFacts) : Facts :=
  let f := if ce = ENCODING_GZIP then gzF else if ce = ENCODING_DEFLATE then zlF else idF
  if f.hdr then ⟨f.clean, f.jdoc.isSome, f.xdoc.isSome⟩ else ⟨false, false, false⟩

def decRead (e : SExp) : Option ReadLine := do
  match ← args "rd" e with
  | [ct, ce, kind, w, fa, idf, gzf, zlf, real, alone, ev, rid] =>
    let ct ← asStr (← one "ct" ct)
    let ce ← asStr (← one "ce" ce)
    let idF ← decStreamFacts "id" idf
    let gzF ← decStreamFacts "gz" gzf
    let zlF ← decStreamFacts "zl" zlf
    let rid ← (match ← one "rid" rid with
      | .atom "-" => some none
      | x => (asNat x).map some)
    pure { obs := { ct := ct, ce := ce, kind := ← decKind (← one "kind" kind), written := ← asStr (← one "w" w),
                    faithful := ← asBool (← one "faithful" fa), facts := declaredFacts ce idF gzF zlF,
                    real := ← decObs (← one "real" real), alone := ← decObs (← one "alone" alone),
                    events := ← decEvents (← one "ev" ev) },
           idF := idF, gzF := gzF, zlF := zlF, rid := rid }
  | _ => none

def decProvider : SExp → Option Provider
  | .list [.atom "prov", .atom "sync"] => some .syncPool
  | .list [.atom "prov", .atom "bounded", n] => do pure (.bounded (← asNat n))
  | _ => none

def decRegEntry (e : SExp) : Option (Str × Kind) := do
  match ← args "k" e with
  | [k, kind] => pure (← asStr k, ← decKind kind)
  | _ => none

def decEntityCfg (e : SExp) : Option (Provider × Cfg) := do
  match ← args "cfg" e with
  | [prov, dflt, reg] =>
    let entries ← (← args "reg" reg).mapM decRegEntry
    pure (← decProvider prov, { registry := entries, dflt := ← asStr (← one "dflt" dflt), useNumber := true })
  | _ => none

/-- the body of read `i` as a token -/
def bodyToken (i : Nat) : Bytes := 'B' :: (toString i).toList

/-- the codec of one history: the table of measured facts -/
def tableCodec (reads : List ReadLine) : Codec Str :=
  let table : List (Bytes × ReadLine) := reads.zipIdx.map fun (r, i) => (bodyToken i, r)
  let find (b : Bytes) : Option ReadLine := (table.find? (fun e => e.1 == b)).map (·.2)
  /- the facts of the stream whose delivered bytes are `data`: the body itself, 'G' :: body, 'Z' :: body -/
  let facts (data : Bytes) : Option StreamFacts :=
    match data with
    | 'G' :: b => (find b).map (·.gzF)
    | 'Z' :: b => (find b).map (·.zlF)
    | b => (find b).map (·.idF)
  let dec (pickRes pickDoc : StreamFacts → Option Str) (s : Stream) : Option Str :=
    match facts s.data with
    | some f => if s.clean = f.clean then pickRes f else if s.clean then pickDoc f else none
    | none => none
  let ungz (b : Bytes) : Stream := match find b with
    | some r => ⟨'G' :: b, r.gzF.clean⟩
    | none => ⟨[], false⟩
  { encJson := fun _ v => v, encXml := fun _ v => v,                        -- never used by `readEntity`
    decJson := fun _ s => dec (·.jres) (·.jdoc) s,
    decXml := fun s => dec (·.xres) (·.xdoc) s,
    gz := fun b => 'g' :: b, zl := fun b => 'z' :: b,
    ungz := ungz,
    unzl := fun b => match find b with
      | some r => if r.zlF.hdr then some ⟨'Z' :: b, r.zlF.clean⟩ else none
      | none => none,
    gzRead := fun r => ungz r.src,                                          -- the Reset law, validated by the harness
    gzLeft := fun r => r.src,
    gzEnd := fun r => '$' :: r.residue }

def encResult : Result Str → String
  | .ok v => s!"(ok {hex v})"
  | .err .badEncoding => "(err bad-encoding)"
  | .err .badSyntax => "(err bad-syntax)"
  | .err .noReader400 => "(err no-reader-400)"

def resultClass : Result Str → String
  | .ok _ => "ok"
  | .err .badEncoding => "bad-encoding"
  | .err .badSyntax => "bad-syntax"
  | .err .noReader400 => "no-reader-400"

def encEvents (l : List Ev) : String :=
  if l.isEmpty then "-" else String.ofList (l.map fun e => match e with | .acquire => 'a' | .use => 'u' | .release => 'r')

def encDecoder : Decoder → String
  | .gzip => "gzip"
  | .deflate => "deflate"
  | .identity => "identity"

def bit (b : Bool) : String := if b then "1" else "0"

/-- the clauses of `readHolds` one by one: no panic, round trip, broken coding, broken syntax,
    history independence, ledger (their conjunction IS `readHolds`) -/
def clauseBits (cfg : Cfg) (r : ReadObs) : String :=
  bit (r.real != .panic) ++ bit (roundTripOK cfg r) ++ bit (brokenCodingOK r) ++ bit (brokenSyntaxOK cfg r) ++
    bit (r.real == r.alone) ++ bit (ledgerOK r.events)

def handle : SExp → Option String
  | .list (.atom "entity" :: .atom id :: c :: rds) =>
    match decEntityCfg c, rds.mapM decRead with
    | some (prov, cfg), some reads =>
      let C := tableCodec reads
      let reqs : List RequestIn := reads.zipIdx.map fun (r, i) => { contentType := r.obs.ct, contentEncoding := r.obs.ce, body := bodyToken i }
      let outs := readSeq C cfg (Pool.fresh C prov) reqs
      let per := (outs.zip reads).map fun (o, r) =>
        let acc := lookupTag cfg r.obs.ct
        let cls := " ".intercalate (o.results.map resultClass)
        let rid := match o.reader with | some n => toString n | none => "-"
        s!"(r (res {" ".intercalate (o.results.map encResult)}) (dec {encDecoder o.decoder}) (acc {acc}) (ev {encEvents o.events}) (rid {rid}) " ++
          s!"(tag {encDecoder o.decoder}/{acc}/{cls.replace " " "+"}) (s {bit (readHolds cfg r.obs)}) (cl {clauseBits cfg r.obs}) (f61 {bit (Spec.C16.f61 cfg r.obs)}) (f62 {bit (Spec.C16.f62 cfg r.obs)}))"
      some s!"(out {id} {" ".intercalate per} (spec C16 {bit (Spec.c16Holds cfg (reads.map (·.obs)))}) (wf {bit cfg.wf}))"
    | _, _ => some s!"(bad-entity {id})"
  | _ => none

end Restful.Driver.EntityP

namespace Restful.Driver
def handleEntity : SExp → Option String := EntityP.handle
end Restful.Driver
