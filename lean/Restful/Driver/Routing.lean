/- decoding of routing configurations and requests; encoding of outcomes -/
import Restful.Driver.SExp
import Restful.Go.Regex
import Restful.Model.Route
import Restful.Spec.Admits
import Restful.Spec.Params
import Restful.Spec.Classify
import Restful.Spec.Order
namespace Restful.Driver
open SExp

def implEnv : ReEnv := ⟨reSearchImpl, reFullImpl⟩

def decRoute (e : SExp) : Option RouteDecl := do
  match ← args "route" e with
  | [id, m, rel, cons, prod, conds, noct] =>
    pure { id := ← asNat id, method := ← asStr m, relPath := ← asStr rel, consumes := ← strs "cons" cons,
           produces := ← strs "prod" prod, conds := ← nats "conds" conds, noct := ← strs "noct" noct }
  | _ => none

def decSvc (e : SExp) : Option Service := do
  match ← args "svc" e with
  | id :: root :: cons :: prod :: routes =>
    pure { id := ← asNat id, root := ← asStr root, consumes := ← strs "cons" cons, produces := ← strs "prod" prod,
           routes := ← routes.mapM decRoute }
  | _ => none

def decRouter : SExp → Option RouterKind
  | .atom "curly" => some .curly
  | .atom "jsr" => some .jsr
  | _ => none

def decCfg (e : SExp) : Option Config := do
  match ← args "cfg" e with
  | router :: svcs => pure { router := ← decRouter router, services := ← svcs.mapM decSvc }
  | _ => none

def decReq (e : SExp) : Option Req := do
  match ← args "req" e with
  | [m, p, ct, acc, clh, cl, conds] =>
    let cs ← args "conds" conds
    pure { method := ← asStr m, path := ← asStr p, contentType := ← asStr ct, accept := ← asStr acc,
           clenHeader := ← asStr clh, contentLength := ← asInt cl, conds := ← cs.mapM asBool }
  | _ => none

def encOutcome : Outcome → String
  | .selected s r ps => s!"(sel {s} {r}" ++ String.join (ps.map fun (k, v) => s!" (p {hex k} {hex v})") ++ ")"
  | .error c none => s!"(err {c} -)"
  | .error c (some a) => s!"(err {c} (allow {strList a}))"
  | .panic w => s!"(panic {w})"

end Restful.Driver

namespace Restful.Driver
open SExp

def decParam (e : SExp) : Option (Str × Str) := do
  match ← args "p" e with
  | [k, v] => pure (← asStr k, ← asStr v)
  | _ => none

def decOutcome : SExp → Option Outcome
  | .list (.atom "sel" :: s :: r :: ps) => do pure (.selected (← asNat s) (← asNat r) (← ps.mapM decParam))
  | .list [.atom "err", c, .atom "-"] => do pure (.error (← asNat c) none)
  | .list [.atom "err", c, a] => do pure (.error (← asNat c) (some (← strs "allow" a)))
  | .list (.atom "panic" :: _) => some (.panic "real")
  | _ => none

/-- what the harness observed: outcome, `SelectedRoutePath()` in the handler, invocation count -/
structure Real where
  outcome : Outcome
  selPath : Str
  invocations : Nat

def decReal (e : SExp) : Option Real := do
  match ← args "real" e with
  | [o, sp, n] => pure ⟨← decOutcome o, ← asStr sp, ← asNat n⟩
  | _ => none

def specLine (id : String) (ok : Bool) : String := s!" (spec {id} {if ok then 1 else 0})"

end Restful.Driver

namespace Restful.Driver

/-- the answer to one `(route id req real)` line: model outcome, coverage tag, and every routing
    property predicate evaluated on the REAL outcome -/
def routeAnswer (id : String) (cfg : Config) (req : Req) (real : Real) : String :=
  let (o, tag) := routeTagged implEnv cfg req
  -- well-formed = the hypotheses of the theorems: templates read, ids identify (`Spec.idsDistinct`: the
  -- predicates name the route that ran by its ids — `C01/C03/C04_holds_unique`), and the root of a
  -- service without routes (about which `wfTemplates` says nothing) reads too
  let wf := cfg.wfTemplates && Spec.idsDistinct cfg && (match cfg.router with
    | .curly => Curly.rootsRead cfg
    | .jsr => Jsr.rootsRead cfg)
  let specs := specLine "WF" wf ++ specLine "C01" (Spec.c01Holds implEnv cfg req real.outcome)
    ++ specLine "C04" (Spec.c04Holds implEnv cfg req real.outcome)
    ++ specLine "C02" (Spec.c02Holds implEnv cfg req real.outcome real.invocations)
    ++ specLine "C03" (Spec.c03Holds implEnv cfg req real.outcome)
    ++ specLine "C03routes2" (Spec.c03RoutesContested implEnv cfg req real.outcome)
    ++ specLine "C03roots2" (Spec.c03RootsContested implEnv cfg req real.outcome)
    ++ specLine "noRootRegex" (Spec.noRootRegex cfg) ++ specLine "bodyCoherent" (Spec.bodyCoherent req)
    ++ specLine "mediaHygiene" (Spec.mediaHygiene cfg)
  s!"(out {id} {encOutcome o} (tag {tag}){specs})"

end Restful.Driver
