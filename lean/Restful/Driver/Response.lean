/-
Driver handler of the `response` stream (C15).

  (resp <id> (set <pretty 0|1> <n|j|x>) (coding 0|1) (ops <op>…) (obs <obs>…) (final <status> <length>)?)
  op  := (pp b) | (acc n|j|x) | (hd …) | (wh s) | (w n) | (wes s n) | (we s <errIsNil 0|1> n) | (wse s ent) | (whe s ent)
       | (wen ent) | (waj ent) | (wax ent) | (wj ent) | (whj s ent) | (whx s ent)
  ent := nil | (v <pj n|fail> <px n|fail> (ej <fails 0|1> chunk…) (ex <fails 0|1> chunk…) (exm <masked 0|1>…)?)
  obs := (c <StatusCode()> <ContentLength()> <ret> <Error()!=nil 0|1> ev…)     one per op, in order
  ret := 0 | <tag> | x        the error the call returned: nil, the value a `Write` event of the case
                              returned (by identity; the tag of that event), anything else
  ev  := (h status) | (w offered accepted <err>)       what the writer beneath the Response saw;
                              err = 0: nil, otherwise a tag naming the error VALUE returned (equal
                              tags = identical values)

The environment handed to the model is the list of `(accepted, err)` results of the observed
`Write` events, in order.  Answer:

  (out <id> (calls (c status length ret errSet ev…)…) (fin status length) (tag t…)
       (spec C15 0|1) (disc 0|1) (dcalls 0|1) (mclean 0|1) (oq n))

`spec C15` is `Spec.c15Holds` on the OBSERVED history (whether a call's value marshals — `ownErr` —
is a fact about the call: it comes from the marshalling facts of the op); `disc` says whether the
observed events obey the discipline, `dcalls` whether the call sequence does
(`Spec.disciplinedCalls`), `mclean` whether every entity of the sequence marshals
(`Spec.marshalClean`), `oq` counts the observed calls in which a `Write` failed AND the value does not
marshal (outside the quantifier of "returns THAT error").
-/
import Restful.Driver.SExp
import Restful.Spec.Response
namespace Restful.Driver
open SExp Resp

def decAccessor : SExp → Option Accessor
  | .atom "n" => some .none
  | .atom "j" => some .json
  | .atom "x" => some .xml
  | _ => none

def decOptNat : SExp → Option (Option Nat)
  | .atom "fail" => some none
  | e => (asNat e).map some

def decEnc (kw : String) (e : SExp) : Option (List Nat × Bool) := do
  match ← args kw e with
  | f :: chunks => pure (← chunks.mapM asNat, ← asBool f)
  | _ => none

def decEnt : SExp → Option Marshalled
  | .atom "nil" => some { isNil := true }
  | .list [.atom "v", pj, px, ej, ex] => do
    let (cj, fj) ← decEnc "ej" ej
    let (cx, fx) ← decEnc "ex" ex
    pure { isNil := false, prettyJson := ← decOptNat pj, prettyXml := ← decOptNat px,
           encJson := cj, encJsonFails := fj, encXml := cx, encXmlFails := fx }
  | .list [.atom "v", pj, px, ej, ex, exm] => do
    let (cj, fj) ← decEnc "ej" ej
    let (cx, fx) ← decEnc "ex" ex
    let ms ← (← args "exm" exm).mapM asBool
    pure { isNil := false, prettyJson := ← decOptNat pj, prettyXml := ← decOptNat px,
           encJson := cj, encJsonFails := fj, encXml := cx, encXmlFails := fx, encXmlMasked := ms }
  | _ => none

def decCall : SExp → Option Call
  | .list [.atom "pp", b] => do pure (.prettyPrint (← asBool b))
  | .list [.atom "acc", a] => do pure (.setAccept (← decAccessor a))
  | .list (.atom "hd" :: _) => some .setHeader
  | .list [.atom "wh", s] => do pure (.writeHeader (← asNat s))
  | .list [.atom "w", n] => do pure (.write (← asNat n))
  | .list [.atom "wes", s, n] => do pure (.writeErrorString (← asNat s) (← asNat n))
  | .list [.atom "we", s, z, n] => do pure (.writeError (← asNat s) (← asBool z) (← asNat n))
  | .list [.atom "wse", s, v] => do pure (.writeServiceError (← asNat s) (← decEnt v))
  | .list [.atom "whe", s, v] => do pure (.writeHeaderAndEntity (← asNat s) (← decEnt v))
  | .list [.atom "wen", v] => do pure (.writeEntity (← decEnt v))
  | .list [.atom "waj", v] => do pure (.writeAsJson (← decEnt v))
  | .list [.atom "wax", v] => do pure (.writeAsXml (← decEnt v))
  | .list [.atom "wj", v] => do pure (.writeJson (← decEnt v))
  | .list [.atom "whj", s, v] => do pure (.writeHeaderAndJson (← asNat s) (← decEnt v))
  | .list [.atom "whx", s, v] => do pure (.writeHeaderAndXml (← asNat s) (← decEnt v))
  | _ => none

def decEvent : SExp → Option UEvent
  | .list [.atom "h", s] => do pure (.header (← asNat s))
  | .list [.atom "w", o, a, f] => do pure (.write (← asNat o) (← asNat a) (← asNat f))
  | _ => none

def decRet : SExp → Option Ret
  | .atom "x" => some .other
  | e => (asNat e).map fun n => if n = 0 then .nil else .writer n

/-- observed call (its `ownErr` is filled in from the ops) and its `Error() != nil` -/
def decObs : SExp → Option (Spec.ObsCall × Bool)
  | .list (.atom "c" :: s :: n :: e :: es :: evs) => do
    pure (⟨← evs.mapM decEvent, ← asNat s, ← asNat n, ← decRet e, false⟩, ← asBool es)
  | _ => none

def decFinal : SExp → Option (Option (Nat × Nat))
  | .list [.atom "final"] => some none
  | .list [.atom "final", s, n] => do pure (some (← asNat s, ← asNat n))
  | _ => none

def bit (b : Bool) : String := if b then "1" else "0"

def encEvent : UEvent → String
  | .header s => s!"(h {s})"
  | .write o a f => s!"(w {o} {a} {f})"

def encRet : Ret → String
  | .nil => "0"
  | .writer t => s!"{t}"
  | .other => "x"

def encResult (r : CallResult) : String :=
  s!"(c {r.status} {r.length} {encRet r.ret} {bit r.errSet}" ++ String.join (r.events.map fun e => " " ++ encEvent e) ++ ")"

def envOfEvents (evs : List UEvent) : Env :=
  Env.ofList (evs.filterMap fun e => match e with | .write _ a f => some ⟨a, f⟩ | .header _ => none)

/-- per call: the value handed to it does not marshal (the plan's `ownErr`) -/
def ownErrs : Settings → List Call → List Bool
  | _, [] => []
  | s, c :: cs => (c.plan s).ownErr :: ownErrs (c.next s) cs

/-- the observed calls with `ownErr` taken from the ops (a call that was not observed to return has no entry) -/
def withOwnErr : List Spec.ObsCall → List Bool → List Spec.ObsCall
  | o :: os, b :: bs => { o with ownErr := b } :: withOwnErr os bs
  | os, _ => os

def callTags : Settings → List Call → List String
  | _, [] => []
  | s, c :: cs => c.tag s :: callTags (c.next s) cs

def responseAnswer (id : String) (s : Settings) (coding : Bool) (calls : List Call)
    (obs : List (Spec.ObsCall × Bool)) (final : Option (Nat × Nat)) : String :=
  let hist : Spec.History := { coding := coding, calls := withOwnErr (obs.map (·.1)) (ownErrs s calls), final := final }
  let oq := (hist.calls.filter fun c => c.ownErr && c.events.any Spec.failedWrite).length
  let evs := Spec.allEvents hist.calls
  let env := envOfEvents evs
  let res := run env (State.init s) calls
  let fin := finalState env (State.init s) calls
  s!"(out {id} (calls{String.join (res.map fun r => " " ++ encResult r)}) (fin {fin.StatusCode} {fin.ContentLength})" ++
    s!" (tag {" ".intercalate (callTags s calls)})" ++
    s!" (spec C15 {bit (Spec.c15Holds hist)}) (disc {bit (Spec.discipline evs)}) (dcalls {bit (Spec.disciplinedCalls s calls)})" ++
    s!" (mclean {bit (Spec.marshalClean s calls)}) (oq {oq}))"

def handleResponse : SExp → Option String
  | .list [.atom "resp", .atom id, set, cod, ops, obs, fin] =>
    let r : Option String := do
      let (s : Settings) ← (match set with
        | .list [.atom "set", p, a] => do pure { prettyPrint := ← asBool p, accept := ← decAccessor a }
        | _ => none)
      let coding ← (match cod with | .list [.atom "coding", b] => asBool b | _ => none)
      let calls ← (← args "ops" ops).mapM decCall
      let os ← (← args "obs" obs).mapM decObs
      let final ← decFinal fin
      pure (responseAnswer id s coding calls os final)
    some (r.getD s!"(bad-resp {id})")
  | _ => none

end Restful.Driver
