/-
C05 protocol handler.

  (mime <id> (acc <hex>) (var <hex>) (prod <hex>…) (reg <hex>…) (def <hex>) (real <obs>…) (realv <obs>…))
    acc   raw Accept header value ("-" = absent/empty), var = a second spelling of it (twin case)
    obs   (ct <hex>) | (e406) | (r406) | (other)     one per dispatch; r406 = rejected by the router
  →
  (out <id> (m <model>) (mv <model>) (tag <branch>) (wf 0|1) (spec C05 0|1) (spec C05v 0|1) (spec OWS 0|1)
       (owseq 0|1) (class F07 0|1) (class F07b 0|1) (classv F07 0|1) (classv F07b 0|1) (best <hex>|none))
    model  (r406) | (e406) | (w <hex>…)   the writer (one; a list for a registry with repeated keys only)
    class F07b = class of the open finding; class F07 = class of the finding repaired by d89a7d4, kept
    as a coverage class (a failing case inside it is a violation like any other)
-/
import Restful.Driver.SExp
import Restful.Model.Mime
import Restful.Spec.Mime
namespace Restful.Driver.MimeP
open SExp Mime

/-- one observed dispatch: `none` = the router answered (the handler did not run) -/
def decObs : SExp → Option (Option Spec.MimeObs)
  | .list [.atom "ct", m] => do pure (some (.ct (← asStr m)))
  | .list [.atom "e406"] => some (some .notAcceptable)
  | .list [.atom "r406"] => some none
  | .list [.atom "other"] => some (some .other)
  | _ => none

def encModel (a : Str) (P reg : List Str) (d : Str) : String :=
  if !routerAdmits a P then "(r406)"
  else
    match entityWriter a P reg d with
    | [] => "(e406)"
    | ws => s!"(w {strList ws})"

/-- `Spec.c05Holds` on what was observed; vacuous when the router rejected the request every time -/
def specOn (a : Str) (P reg : List Str) (obs : List (Option Spec.MimeObs)) : Bool :=
  if obs.all Option.isNone then true
  else
    match obs.mapM id with
    | some os => Spec.c05Holds a P reg os
    | none => false -- routed on one dispatch, rejected on another

def branchName : Branch → String
  | .walk => "walk" | .acceptKey => "acceptkey" | .default => "default" | .produces => "produces" | .none => "none"

def mimeTag (a : Str) (P reg : List Str) (d : Str) : String :=
  if !routerAdmits a P then "r406"
  else
    let pieces := Str.split ',' a
    let valid := (pieces.filterMap rangeOf).length
    let b := (entityWriterTagged a P reg d).2
    let ranked := sortedMimes (if a.isEmpty then starStar else a) -- what EntityWriter walks (response.go:85-90)
    let star := if b == .walk && !((entityWriter a P reg d).all (fun w => ranked.any (fun m => m.media == w))) then "-star" else ""
    s!"{branchName b}{star}-{min valid 4}" ++ (if valid < pieces.length then "-dropped" else "")

def bit (b : Bool) : String := if b then "1" else "0"

def handleMime (e : SExp) : Option String := do
  match ← args "mime" e with
  | [.atom id, acc, var, prod, reg, dflt, real, realv] =>
    let res : Option String := do
      let a ← (← args "acc" acc).head? >>= asStr
      let a' ← (← args "var" var).head? >>= asStr
      let P ← strs "prod" prod
      let R ← strs "reg" reg
      let d ← (← args "def" dflt).head? >>= asStr
      let obs ← (← args "real" real).mapM decObs
      let obsv ← (← args "realv" realv).mapM decObs
      let owseq := dropOWS a == dropOWS a'
      let bothRouted := obs.all Option.isSome && obsv.all Option.isSome
      let owsOK := !(owseq && bothRouted) || obs == obsv
      let best := match Spec.best a P R with | some b => hex b | none => "none"
      pure (s!"(out {id} (m {encModel a P R d}) (mv {encModel a' P R d}) (tag {mimeTag a P R d})" ++
        s!" (wf {bit (Spec.wfMime P R)}) (spec C05 {bit (specOn a P R obs)}) (spec C05v {bit (specOn a' P R obsv)})" ++
        s!" (spec OWS {bit owsOK}) (owseq {bit owseq})" ++
        s!" (class F07 {bit (Spec.F07 a d)}) (class F07b {bit (Spec.F07b a P R)})" ++
        s!" (classv F07 {bit (Spec.F07 a' d)}) (classv F07b {bit (Spec.F07b a' P R)}) (best {best}))")
    some (res.getD s!"(bad-mime {id})")
  | _ => some "(bad-mime ?)"

end Restful.Driver.MimeP

namespace Restful.Driver
def handleMime : SExp → Option String := MimeP.handleMime
end Restful.Driver
