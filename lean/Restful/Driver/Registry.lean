/-
C11 protocol handler.  One line = one history:

  (registry <id> <router> (ops <op>…) (real (panic -|<idx>) (freshpanic 0|1))
            (content (svcs (s <dyn> <svc>)…) (handlers (h <pattern> <id>)…))
            (probes (probe <req> <histDispatch> <freshDispatch> <histServe> <freshServe>)…))
  op     := (add <dyn> <svc>) | (remove <root>) | (route <root> <route>) | (rmroute <root> <path> <method>)
          | (handle <pattern> <id>)
  answer := (sel s r (p k v)…) | (err code -|(allow m…)) | (panic x) | (plain id) | (redirect loc) | (nocontainer)

`content` is the content the harness built the fresh container from (it must be the model's
`content`: `(contentok 0|1)`).  The four answers of a probe are what the REAL containers said.  The driver answers what the model
says for the same history and probes, and evaluates the spec predicates on the REAL observations:

  (out <id> (run ok|(panic <idx> exit|mux)) (fresh ok|panic) (contentok 0|1) (class F10b 0|1) (class F11 0|1) (spec C11add 0|1)
       (probes (pr <histDispatch> <freshDispatch> <histServe> <freshServe> (spec C11 0|1) (tag t))…))

`(class F10b …)` is the class of the open finding.  `(class F11 …)` is a COVERAGE class: the history
visits the class of the finding F11 repaired by 093fa53 (after some operation of the model's run the
services present want one ServeMux pattern twice); it excuses nothing.
-/
import Restful.Driver.Routing
import Restful.Model.Registry
import Restful.Spec.Registry
namespace Restful.Driver.RegistryP
open Restful.Driver SExp Registry

def decSvcOp (dyn svc : SExp) : Option Svc := do
  pure { svc := ← decSvc svc, dynamic := ← asBool dyn }

def decOp (e : SExp) : Option Op :=
  match e with
  | .list [.atom "add", dyn, svc] => do pure (.add (← decSvcOp dyn svc))
  | .list [.atom "remove", root] => do pure (.remove (← asStr root))
  | .list [.atom "route", root, r] => do pure (.route (← asStr root) (← decRoute r))
  | .list [.atom "rmroute", root, p, m] => do pure (.removeRoute (← asStr root) (← asStr p) (← asStr m))
  | .list [.atom "handle", p, id] => do pure (.handle (← asStr p) (← asNat id))
  | _ => none

def decAnswer (e : SExp) : Option Answer :=
  match e with
  | .list [.atom "plain", id] => do pure (.plain (← asNat id))
  | .list [.atom "redirect", loc] => do pure (.redirect (← asStr loc))
  | .list [.atom "nocontainer"] => some .noContainer
  | o => do pure (.routed (← decOutcome o))

/-- the mux's 404 and go-restful's 404 are the same observation: status 404, nothing ran -/
def encAnswer : Answer → String
  | .routed o => encOutcome o
  | .plain id => s!"(plain {id})"
  | .notFound => "(err 404 -)"
  | .redirect loc => s!"(redirect {hex loc})"
  | .noContainer => "(nocontainer)"

def answerTag : Answer → String
  | .routed (.selected _ _ _) => "sel"
  | .routed (.error c _) => s!"err{c}"
  | .routed (.panic _) => "panic"
  | .plain _ => "plain"
  | .notFound => "mux404"
  | .redirect _ => "redirect"
  | .noContainer => "nocontainer"

structure Probe where
  req : Req
  obs : Spec.Observed

def decProbe (e : SExp) : Option Probe := do
  match ← args "probe" e with
  | [r, hd, fd, hs, fs] =>
    pure { req := ← decReq r, obs := ⟨← decAnswer hd, ← decAnswer fd, ← decAnswer hs, ← decAnswer fs⟩ }
  | _ => none

def decRealPanic : SExp → Option (Option Nat)
  | .atom "-" => some none
  | .atom a => a.toNat?.map some
  | _ => none

def bit (b : Bool) : String := if b then "1" else "0"

def encPanic : Panic → String
  | .exit => "exit"
  | .mux _ => "mux"

/-- every plain pattern the user registered so far (a repaired `Remove` keeps them all) -/
def plainPatterns : List Op → List Str
  | [] => []
  | .handle p _ :: rest => p :: plainPatterns rest
  | _ :: rest => plainPatterns rest

/-- add-total clause on the REAL outcome: the real run panicked at operation `idx` (or not at all).
    The context is read off the history itself, not off the model's run: `present` are the services
    the container holds before that operation (the content the harness keeps), the plain patterns
    are all those the user registered before it. -/
def addTotalOnReal (ops : List Op) (present : List Svc) (realPanic : Option Nat) : Bool :=
  match realPanic with
  | none => true
  | some idx =>
    match ops[idx]? with
    | some (.add s) =>
      Spec.c11AddTotalHolds (present.map (·.root) ++ [s.root]) (plainPatterns (ops.take idx)) true
    | some (.remove root) =>
      -- `Remove` re-registers on a new ServeMux: no plain pattern is there to clash with
      Spec.c11AddTotalHolds ((present.filter (fun each => each.root != root)).map (·.root)) [] true
    | some (.handle _ _) => true      -- `Handle` panics for a pattern in use: documented
    | _ => false

/-- coverage: after some operation of the model's run the services present lie in the class of the
    repaired finding F11 (two of them want the same ServeMux pattern) -/
def visitsF11 (st : State) : List Op → Bool
  | [] => false
  | op :: ops =>
    match step st op with
    | .ok st' => Spec.F11 (st'.services.map (·.root)) || visitsF11 st' ops
    | .error _ => false

def decContent (k : RouterKind) (e : SExp) : Option Content :=
  match e with
  | .list [.atom "content", svcsE, hsE] => do
    let svcs ← (← args "svcs" svcsE).mapM fun s =>
      match s with
      | .list [.atom "s", dyn, svc] => decSvcOp dyn svc
      | _ => none
    let hs ← (← args "handlers" hsE).mapM fun h =>
      match h with
      | .list [.atom "h", p, id] => do pure (← asStr p, ← asNat id)
      | _ => none
    pure ⟨k, svcs, hs⟩
  | _ => none

def handleRegistry (e : SExp) : Option String :=
  match e with
  | .list [.atom "registry", .atom id, router, opsE, realE, contentE, probesE] => some <| Id.run do
    let bad := s!"(bad-registry {id})"
    let some k := decRouter router | return bad
    let some ops := (args "ops" opsE).bind (·.mapM decOp) | return bad
    let some probes := (args "probes" probesE).bind (·.mapM decProbe) | return bad
    let some realPanic := (match realE with
      | .list [.atom "real", .list [.atom "panic", p], .list [.atom "freshpanic", _]] => decRealPanic p
      | _ => none) | return bad
    let some realContent := decContent k contentE | return bad
    let hist := runIdx (init k) 0 ops
    let contentOk : Bool := match hist with
      | .ok st => if realPanic.isNone then decide (content st = realContent) else true
      | .error (i, st, _) => if realPanic = some i then decide (content st = realContent) else true
    let histR : Except Panic State := match hist with
      | .ok st => .ok st
      | .error (_, _, p) => .error p
    let freshR : Except Panic State := match hist with
      | .ok st => fresh (content st)
      | .error (_, _, p) => .error p
    let runS := match hist with
      | .ok _ => "ok"
      | .error (i, _, p) => s!"(panic {i} {encPanic p})"
    let freshS := match freshR with
      | .ok _ => "ok"
      | .error _ => "panic"
    let addOk := addTotalOnReal ops realContent.services realPanic
    let f11 := visitsF11 (init k) ops
    let prs := probes.map fun p =>
      let hd := answerOf implEnv histR .dispatch p.req
      let fd := answerOf implEnv freshR .dispatch p.req
      let hs := answerOf implEnv histR .serveHTTP p.req
      let fs := answerOf implEnv freshR .serveHTTP p.req
      s!"(pr {encAnswer hd} {encAnswer fd} {encAnswer hs} {encAnswer fs} (spec C11 {bit (Spec.c11Holds p.obs)}) (tag {answerTag hs}/{answerTag hd}))"
    return s!"(out {id} (run {runS}) (fresh {freshS}) (contentok {bit contentOk}) (class F10b {bit (Spec.F10b ops)}) (class F11 {bit f11}) (spec C11add {bit addOk}) (probes {" ".intercalate prs}))"
  | _ => none

end Restful.Driver.RegistryP

namespace Restful.Driver
def handleRegistry := RegistryP.handleRegistry
end Restful.Driver
