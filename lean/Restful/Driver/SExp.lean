/- S-expressions with hex atoms: the line protocol between harness and driver (DESIGN A.1). -/
import Restful.Go.Str
namespace Restful

inductive SExp where
  | atom : String → SExp
  | list : List SExp → SExp
  deriving Repr, Inhabited

namespace SExp

def tokenize (s : String) : List String := Id.run do
  let mut out : Array String := #[]
  let mut cur : String := ""
  for c in s.toList do
    if c == '(' || c == ')' then
      if cur ≠ "" then out := out.push cur; cur := ""
      out := out.push (String.singleton c)
    else if c == ' ' || c == '\n' || c == '\t' || c == '\r' then
      if cur ≠ "" then out := out.push cur; cur := ""
    else cur := cur.push c
  if cur ≠ "" then out := out.push cur
  return out.toList

def parseToks (toks : List String) : Option SExp := Id.run do
  let mut stack : List (List SExp) := [[]]
  for t in toks do
    if t == "(" then stack := [] :: stack
    else if t == ")" then
      match stack with
      | top :: next :: rest => stack := (SExp.list top.reverse :: next) :: rest
      | _ => return none
    else
      match stack with
      | top :: rest => stack := (SExp.atom t :: top) :: rest
      | [] => return none
  match stack with
  | [[e]] => return some e
  | _ => return none

def parse (s : String) : Option SExp := parseToks (tokenize s)

def hexVal (c : Char) : Option Nat :=
  if '0' ≤ c ∧ c ≤ '9' then some (c.toNat - '0'.toNat)
  else if 'a' ≤ c ∧ c ≤ 'f' then some (c.toNat - 'a'.toNat + 10)
  else none

def unhex : List Char → Option Str
  | [] => some []
  | [_] => none
  | a :: b :: rest => do
    let x ← hexVal a; let y ← hexVal b
    let r ← unhex rest
    pure (Char.ofNat (x * 16 + y) :: r)

def hexDigit (n : Nat) : Char := if n < 10 then Char.ofNat (n + 48) else Char.ofNat (n - 10 + 97)

/-- hex of a byte string; "-" for the empty string -/
def hex (s : Str) : String :=
  if s.isEmpty then "-" else String.ofList (s.flatMap fun c => [hexDigit (c.toNat / 16), hexDigit (c.toNat % 16)])

def asStr : SExp → Option Str
  | .atom "-" => some []
  | .atom a => unhex a.toList
  | _ => none

def asNat : SExp → Option Nat
  | .atom a => a.toNat?
  | _ => none

def asInt : SExp → Option Int
  | .atom a => a.toInt?
  | _ => none

def asBool : SExp → Option Bool
  | .atom "0" => some false
  | .atom "1" => some true
  | _ => none

/-- `(kw a b c)` → `[a, b, c]` -/
def args (kw : String) : SExp → Option (List SExp)
  | .list (.atom k :: rest) => if k == kw then some rest else none
  | _ => none

def strs (kw : String) (e : SExp) : Option (List Str) := do
  let xs ← args kw e
  xs.mapM asStr

def nats (kw : String) (e : SExp) : Option (List Nat) := do
  let xs ← args kw e
  xs.mapM asNat

def strList (l : List Str) : String := " ".intercalate (l.map hex)

end SExp
end Restful
