/- the list of stateless protocol handlers, one per slice (add an import and an entry per slice) -/
import Restful.Driver.SExp
namespace Restful.Driver

def statelessHandlers : List (SExp → Option String) := []

end Restful.Driver
