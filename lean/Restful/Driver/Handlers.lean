/- the list of stateless protocol handlers, one per slice (add an import and an entry per slice) -/
import Restful.Driver.SExp
import Restful.Driver.RoutingExtra
import Restful.Driver.Serve
import Restful.Driver.Response
import Restful.Driver.Mime
import Restful.Driver.Cors
import Restful.Driver.Registry
import Restful.Driver.Entity
import Restful.Driver.Options
namespace Restful.Driver

def statelessHandlers : List (SExp → Option String) := [handleSame, handleClass, handleServe, handleResponse, handleMime, handleCors, handleRegistry, handleEntity, handleAllow]

end Restful.Driver
