import Restful.Driver.Routing
open Restful Restful.Driver Restful.SExp

structure DState where
  cfg : Option Config := none

def handle (st : DState) (line : String) : DState × String :=
  match SExp.parse line with
  | some (.list [.atom "cfg", _, c]) =>
    match decCfg c with
    | some cfg => ({ st with cfg := some cfg }, "(ok)")
    | none => (st, "(bad-cfg)")
  | some (.list [.atom "route", .atom id, r, _real]) =>
    match st.cfg, decReq r with
    | some cfg, some req =>
      let (o, tag) := routeTagged implEnv cfg req
      (st, s!"(out {id} {encOutcome o} (tag {tag}))")
    | _, _ => (st, s!"(bad-req {id})")
  | _ => (st, "(bad-op)")

partial def loop (inp out : IO.FS.Stream) (st : DState) : IO Unit := do
  let line ← inp.getLine
  if line.isEmpty then return ()
  let (st', res) := handle st line
  out.putStrLn res
  loop inp out st'

def main : IO Unit := do
  let out ← IO.getStdout
  loop (← IO.getStdin) out {}
