/-
The line-protocol driver (DESIGN A.1): one S-expression per line in, one per line out.
Built as a core-only `lean_exe`; imports Model + Spec only (never a proof module).

Stateful: `(cfg id <cfg>)` sets the current routing table for the `(route …)` lines that follow.
Every other operation is stateless: a handler in `Restful/Driver/<Slice>.lean` gets the parsed
expression and answers `some line` if the operation is its own.
-/
import Restful.Driver.Routing
import Restful.Driver.Handlers
open Restful Restful.Driver Restful.SExp

structure DState where
  cfg : Option Config := none

def handle (st : DState) (line : String) : DState × String :=
  match SExp.parse line with
  | some (.list [.atom "cfg", _, c]) =>
    match decCfg c with
    | some cfg => ({ st with cfg := some cfg }, "(ok)")
    | none => (st, "(bad-cfg)")
  | some (.list (.atom "route" :: .atom id :: r :: real :: _)) =>
    match st.cfg, decReq r, decReal real with
    | some cfg, some req, some real => (st, routeAnswer id cfg req real)
    | _, _, _ => (st, s!"(bad-req {id})")
  | some e =>
    match statelessHandlers.findSome? (fun h => h e) with
    | some out => (st, out)
    | none => (st, "(bad-op)")
  | none => (st, "(bad-syntax)")

partial def loop (inp out : IO.FS.Stream) (st : DState) : IO Unit := do
  let line ← inp.getLine
  if line.isEmpty then return ()
  let (st', res) := handle st line
  out.putStrLn res
  loop inp out st'

def main : IO Unit := do
  let out ← IO.getStdout
  loop (← IO.getStdin) out {}
