import Restful.Driver.Routing
import Restful.Spec.Admits
import Restful.Spec.Params
open Restful Restful.Driver Restful.SExp

structure DState where
  cfg : Option Config := none

def handle (st : DState) (line : String) : DState × String :=
  match SExp.parse line with
  | some (.list [.atom "cfg", _, c]) =>
    match decCfg c with
    | some cfg => ({ st with cfg := some cfg }, "(ok)")
    | none => (st, "(bad-cfg)")
  | some (.list [.atom "route", .atom id, r, real]) =>
    match st.cfg, decReq r, decReal real with
    | some cfg, some req, some real =>
      let (o, tag) := routeTagged implEnv cfg req
      let specs := specLine "WF" cfg.wfTemplates ++ specLine "C01" (Spec.c01Holds implEnv cfg req real.outcome)
        ++ specLine "C04" (Spec.c04Holds implEnv cfg req real.outcome)
      (st, s!"(out {id} {encOutcome o} (tag {tag}){specs})")
    | _, _, _ => (st, s!"(bad-req {id})")
  | _ => (st, "(bad-op)")

partial def loop (inp out : IO.FS.Stream) (st : DState) : IO Unit := do
  let line ← inp.getLine
  if line.isEmpty then return ()
  let (st', res) := handle st line
  out.putStrLn res
  loop inp out st'

def main : IO Unit := do
  let out ← IO.getStdout
  loop (← IO.getStdin) out {}
