import Restful.Go.Str
import Restful.Go.Sort
