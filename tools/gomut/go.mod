module gomut

go 1.21
