// gomut writes single-edit semantic mutants of the given functions of a Go package: one file per mutant
// (<out>/<n>/<file.go> + <out>/<n>/desc.txt), to measure whether the ties of the translated functions
// (tools/goimp, Lemmas/TieImp*.lean) break on a semantic change.  Operators: a comparison replaced by its
// neighbour (== / !=, < / <=, > / >=), && / || swapped, an if-condition negated, an integer literal n → n+1,
// `+` / `-` swapped, a statement deleted (assignment, inc/dec, break, continue, expression statement).
//
//	gomut <package dir> <out dir> <max per function> <Recv.Name|Name> …
package main

import (
	"bytes"
	"fmt"
	"go/ast"
	"go/parser"
	"go/printer"
	"go/token"
	"os"
	"path/filepath"
	"sort"
	"strconv"
	"strings"
)

func recvName(fd *ast.FuncDecl) string {
	if fd.Recv == nil || len(fd.Recv.List) == 0 {
		return ""
	}
	t := fd.Recv.List[0].Type
	if s, ok := t.(*ast.StarExpr); ok {
		t = s.X
	}
	if id, ok := t.(*ast.Ident); ok {
		return id.Name
	}
	return "?"
}

type site struct {
	desc  string
	apply func() (undo func())
}

func main() {
	dir, out := os.Args[1], os.Args[2]
	max, _ := strconv.Atoi(os.Args[3])
	want := map[string]bool{}
	for _, a := range os.Args[4:] {
		want[a] = true
	}
	files, _ := filepath.Glob(filepath.Join(dir, "*.go"))
	sort.Strings(files)
	n := 0
	for _, f := range files {
		if strings.HasSuffix(f, "_test.go") {
			continue
		}
		fset := token.NewFileSet()
		af, err := parser.ParseFile(fset, f, nil, parser.ParseComments)
		if err != nil {
			continue
		}
		for _, d := range af.Decls {
			fd, ok := d.(*ast.FuncDecl)
			if !ok || fd.Body == nil {
				continue
			}
			key := fd.Name.Name
			if r := recvName(fd); r != "" {
				key = r + "." + key
			}
			if !want[key] {
				continue
			}
			var sites []site
			pos := func(p token.Pos) string { return fmt.Sprintf("%s:%d", filepath.Base(f), fset.Position(p).Line) }
			// skip `if trace { … }` blocks
			var walk func(n ast.Node)
			walkBlock := func(b *ast.BlockStmt) {
				for i := range b.List {
					i := i
					switch s := b.List[i].(type) {
					case *ast.AssignStmt, *ast.IncDecStmt, *ast.BranchStmt, *ast.ExprStmt:
						if es, ok := s.(*ast.ExprStmt); ok && strings.Contains(src(fset, es), "traceLogger") {
							continue
						}
						if as, ok := s.(*ast.AssignStmt); ok && as.Tok == token.DEFINE {
							continue // deleting a declaration does not compile
						}
						st := b.List[i]
						sites = append(sites, site{"delete statement `" + oneLine(src(fset, st)) + "` at " + pos(st.Pos()), func() func() {
							b.List[i] = &ast.EmptyStmt{Implicit: false}
							return func() { b.List[i] = st }
						}})
					}
				}
			}
			walk = func(n ast.Node) {
				ast.Inspect(n, func(n ast.Node) bool {
					switch x := n.(type) {
					case *ast.IfStmt:
						if id, ok := x.Cond.(*ast.Ident); ok && id.Name == "trace" {
							return false
						}
						c := x.Cond
						sites = append(sites, site{"negate condition `" + oneLine(src(fset, c)) + "` at " + pos(c.Pos()), func() func() {
							x.Cond = &ast.UnaryExpr{Op: token.NOT, X: &ast.ParenExpr{X: c}}
							return func() { x.Cond = c }
						}})
					case *ast.BlockStmt:
						walkBlock(x)
					case *ast.BinaryExpr:
						var alt token.Token
						switch x.Op {
						case token.EQL:
							alt = token.NEQ
						case token.NEQ:
							alt = token.EQL
						case token.LSS:
							alt = token.LEQ
						case token.LEQ:
							alt = token.LSS
						case token.GTR:
							alt = token.GEQ
						case token.GEQ:
							alt = token.GTR
						case token.LAND:
							alt = token.LOR
						case token.LOR:
							alt = token.LAND
						case token.ADD:
							alt = token.SUB
						case token.SUB:
							alt = token.ADD
						default:
							return true
						}
						if x.Op == token.ADD {
							// string concatenation has no `-`
							if _, isLit := x.Y.(*ast.BasicLit); isLit && x.Y.(*ast.BasicLit).Kind == token.STRING {
								return true
							}
							if _, isLit := x.X.(*ast.BasicLit); isLit && x.X.(*ast.BasicLit).Kind == token.STRING {
								return true
							}
						}
						op := x.Op
						sites = append(sites, site{fmt.Sprintf("`%s` → `%s` in `%s` at %s", op, alt, oneLine(src(fset, x)), pos(x.Pos())), func() func() {
							x.Op = alt
							return func() { x.Op = op }
						}})
					case *ast.BasicLit:
						if x.Kind == token.INT {
							v, err := strconv.Atoi(x.Value)
							if err == nil {
								old := x.Value
								sites = append(sites, site{fmt.Sprintf("literal %s → %d at %s", old, v+1, pos(x.Pos())), func() func() {
									x.Value = strconv.Itoa(v + 1)
									return func() { x.Value = old }
								}})
							}
						}
					}
					return true
				})
			}
			walk(fd.Body)
			// spread the picks over the function
			step := 1
			if max > 0 && len(sites) > max {
				step = (len(sites) + max - 1) / max
			}
			for i := 0; i < len(sites); i += step {
				undo := sites[i].apply()
				var b bytes.Buffer
				if err := printer.Fprint(&b, fset, af); err == nil {
					n++
					d := filepath.Join(out, fmt.Sprintf("%03d", n))
					os.MkdirAll(d, 0o755)
					os.WriteFile(filepath.Join(d, filepath.Base(f)), b.Bytes(), 0o644)
					os.WriteFile(filepath.Join(d, "desc.txt"), []byte(key+": "+sites[i].desc+"\n"), 0o644)
				}
				undo()
			}
		}
	}
	fmt.Println(n, "mutants")
}

func src(fset *token.FileSet, n ast.Node) string {
	var b bytes.Buffer
	printer.Fprint(&b, fset, n)
	return b.String()
}

func oneLine(s string) string {
	s = strings.Join(strings.Fields(s), " ")
	if len(s) > 70 {
		s = s[:70] + "…"
	}
	return s
}
