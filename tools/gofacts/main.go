// gofacts re-reads the go-restful sources and writes what they SAY about synchronisation and
// request-path writes as Lean data (Restful/Gen/Facts.lean).  It is deliberately dumb: go/ast only,
// no judgement — every obligation is stated and checked in Lean (Props/C12, C13, C19 …).
//
//   gofacts <repo dir> <out .lean>
//
// Anything that touches a lock, a channel or a tracked field in a shape it does not recognise
// becomes an `unknown` item, which makes the Lean obligations fail loudly.
package main

import (
	"bytes"
	"fmt"
	"go/ast"
	"go/parser"
	"go/printer"
	"go/token"
	"os"
	"path/filepath"
	"sort"
	"strings"
)

var fset = token.NewFileSet()

// names under which packages are imported somewhere in the package (calls on them leave the package)
var imported = map[string]bool{}

func src(n ast.Node) string {
	var b bytes.Buffer
	printer.Fprint(&b, fset, n)
	return strings.Join(strings.Fields(b.String()), " ")
}

// what is tracked
var lockNames = []string{"webServicesLock", "routesLock"}
var fieldNames = []string{"webServices", "ServeMux", "isRegisteredOnRoot", "routes"}
var chanNames = []string{"gzipWriters", "gzipReaders", "zlibWriters"}

func idx(xs []string, s string) int {
	for i, x := range xs {
		if x == s {
			return i
		}
	}
	return -1
}

// Item is one fact about one function, in source order.
type Item struct {
	Fn    string
	Kind  string // acq rel deferRel read write call deferCall chanTryRecv chanTrySend chanSend chanRecv chanLen assignNil unknown go
	A     int    // lock / field / channel id, or mode for acq in B
	B     int    // mode: 0 = R, 1 = W
	Name  string // callee name, or text
	Conds []string
	Depth int // closure nesting: 0 = function body, >0 inside a func literal
	Inline bool // the enclosing func literal is invoked on the spot ( func(){…}() ) or deferred
}

type walker struct {
	fn     string
	conds  []string
	depth  int
	inline bool
	items  *[]Item
}

func (w *walker) emit(kind string, a, b int, name string) {
	*w.items = append(*w.items, Item{Fn: w.fn, Kind: kind, A: a, B: b, Name: name, Conds: append([]string{}, w.conds...), Depth: w.depth, Inline: w.inline})
}

func lockCall(e ast.Expr) (lock int, op string, ok bool) {
	call, isCall := e.(*ast.CallExpr)
	if !isCall {
		return
	}
	sel, isSel := call.Fun.(*ast.SelectorExpr)
	if !isSel {
		return
	}
	inner, isSel2 := sel.X.(*ast.SelectorExpr)
	if !isSel2 || idx(lockNames, inner.Sel.Name) < 0 {
		return
	}
	return idx(lockNames, inner.Sel.Name), sel.Sel.Name, true
}

func chanOf(e ast.Expr) int {
	if s, ok := e.(*ast.SelectorExpr); ok {
		return idx(chanNames, s.Sel.Name)
	}
	return -1
}

// expr walks an expression: tracked field accesses, calls, func literals.
func (w *walker) expr(e ast.Node, write bool) {
	if e == nil {
		return
	}
	ast.Inspect(e, func(n ast.Node) bool {
		switch x := n.(type) {
		case *ast.FuncLit:
			sub := *w
			sub.depth++
			sub.inline = false
			sub.block(x.Body)
			return false
		case *ast.CallExpr:
			if _, _, ok := lockCall(x); ok {
				w.emit("unknown", 0, 0, "lock operation inside an expression: "+src(x))
				return false
			}
			if fl, ok := x.Fun.(*ast.FuncLit); ok { // func(){…}() invoked on the spot
				sub := *w
				sub.depth++
				sub.inline = true
				sub.block(fl.Body)
				for _, a := range x.Args {
					w.expr(a, false)
				}
				return false
			}
			switch f := x.Fun.(type) {
			case *ast.SelectorExpr:
				if id, ok := f.X.(*ast.Ident); ok && imported[id.Name] {
					break // a function of an imported package (strings.Join, http.NewServeMux …)
				}
				if c, ok := f.X.(*ast.CallExpr); ok {
					if s2, ok := c.Fun.(*ast.SelectorExpr); ok && s2.Sel.Name == "Header" {
						w.expr(f.X, false)
						break // a method of net/http.Header (resp.Header().Add …)
					}
				}
				w.emit("call", 0, 0, f.Sel.Name)
				w.expr(f.X, false) // receiver expression may read tracked fields (c.ServeMux.ServeHTTP)
			case *ast.Ident:
				if f.Name == "len" && len(x.Args) == 1 && chanOf(x.Args[0]) >= 0 {
					w.emit("chanLen", chanOf(x.Args[0]), 0, "")
					return false
				}
				w.emit("call", 0, 0, f.Name)
			default:
				w.expr(x.Fun, false)
			}
			for _, a := range x.Args {
				w.expr(a, false)
			}
			return false
		case *ast.SelectorExpr:
			if i := idx(fieldNames, x.Sel.Name); i >= 0 {
				k := "read"
				if write {
					k = "write"
				}
				w.emit(k, i, 0, src(x))
			}
			if chanOf(x) >= 0 {
				// a channel mentioned outside a recognised channel statement
				w.emit("unknown", 0, 0, "channel used in an expression: "+src(x))
			}
			w.expr(x.X, false)
			return false
		case *ast.UnaryExpr:
			if x.Op == token.ARROW {
				if c := chanOf(x.X); c >= 0 {
					w.emit("chanRecv", c, 0, "")
					return false
				}
			}
		}
		return true
	})
}

func (w *walker) stmt(st ast.Stmt) {
	switch s := st.(type) {
	case nil:
	case *ast.ExprStmt:
		if l, op, ok := lockCall(s.X); ok {
			switch op {
			case "Lock":
				w.emit("acq", l, 1, "")
			case "RLock":
				w.emit("acq", l, 0, "")
			case "Unlock":
				w.emit("rel", l, 1, "")
			case "RUnlock":
				w.emit("rel", l, 0, "")
			default:
				w.emit("unknown", 0, 0, "lock method "+op)
			}
			return
		}
		w.expr(s.X, false)
	case *ast.DeferStmt:
		if l, op, ok := lockCall(s.Call); ok {
			m := 0
			if op == "Unlock" {
				m = 1
			}
			if op != "Unlock" && op != "RUnlock" {
				w.emit("unknown", 0, 0, "deferred lock method "+op)
			}
			w.emit("deferRel", l, m, "")
			return
		}
		if fl, ok := s.Call.Fun.(*ast.FuncLit); ok {
			what := "func"
			body := src(fl.Body)
			switch {
			case strings.Contains(body, "recover()"):
				what = "recover"
			case strings.Contains(body, ".Close()"):
				what = "closeCompressor"
			}
			w.emit("deferCall", 0, 0, what)
			sub := *w
			sub.depth++
			sub.inline = true
			sub.block(fl.Body)
			return
		}
		w.emit("deferCall", 0, 0, src(s.Call.Fun))
		w.expr(s.Call, false)
	case *ast.GoStmt:
		w.emit("go", 0, 0, src(s.Call.Fun))
		w.expr(s.Call, false)
	case *ast.AssignStmt:
		for i, r := range s.Rhs {
			// `x := append(obj.field, …)`: the result may share obj.field's backing array
			if call, ok := r.(*ast.CallExpr); ok && i < len(s.Lhs) {
				if id, ok := call.Fun.(*ast.Ident); ok && id.Name == "append" && len(call.Args) > 0 {
					if _, isSel := call.Args[0].(*ast.SelectorExpr); isSel && src(call.Args[0]) != src(s.Lhs[i]) {
						w.emit("aliasAppend", 0, 0, src(s))
					}
				}
			}
			w.expr(r, false)
		}
		for i, l := range s.Lhs {
			if sel, ok := l.(*ast.SelectorExpr); ok && sel.Sel.Name == "compressor" && i < len(s.Rhs) && src(s.Rhs[i]) == "nil" {
				w.emit("assignNil", 0, 0, "compressor")
			}
			w.expr(l, true)
		}
	case *ast.IncDecStmt:
		w.expr(s.X, true)
	case *ast.DeclStmt:
		w.expr(s, false)
	case *ast.IfStmt:
		w.stmt(s.Init)
		w.expr(s.Cond, false)
		w.conds = append(w.conds, src(s.Cond))
		w.block(s.Body)
		w.conds[len(w.conds)-1] = "!(" + src(s.Cond) + ")"
		switch e := s.Else.(type) {
		case *ast.BlockStmt:
			w.block(e)
		case nil:
		default:
			w.stmt(e)
		}
		w.conds = w.conds[:len(w.conds)-1]
	case *ast.RangeStmt:
		w.expr(s.X, false)
		w.block(s.Body)
	case *ast.ForStmt:
		w.stmt(s.Init)
		w.expr(s.Cond, false)
		w.stmt(s.Post)
		w.block(s.Body)
	case *ast.SwitchStmt:
		w.stmt(s.Init)
		w.expr(s.Tag, false)
		w.block(s.Body)
	case *ast.TypeSwitchStmt:
		w.stmt(s.Init)
		w.stmt(s.Assign)
		w.block(s.Body)
	case *ast.CaseClause:
		for _, e := range s.List {
			w.expr(e, false)
		}
		for _, b := range s.Body {
			w.stmt(b)
		}
	case *ast.ReturnStmt:
		for _, r := range s.Results {
			w.expr(r, false)
		}
	case *ast.BlockStmt:
		w.block(s)
	case *ast.LabeledStmt:
		w.stmt(s.Stmt)
	case *ast.BranchStmt:
	case *ast.SendStmt:
		if c := chanOf(s.Chan); c >= 0 {
			w.emit("chanSend", c, 0, "")
			w.expr(s.Value, false)
			return
		}
		w.expr(s.Chan, false)
		w.expr(s.Value, false)
	case *ast.SelectStmt:
		w.selectStmt(s)
	default:
		w.emit("unknown", 0, 0, fmt.Sprintf("statement %T", st))
	}
}

// selectStmt recognises the two shapes the cache uses: one channel arm plus `default`.
func (w *walker) selectStmt(s *ast.SelectStmt) {
	var comm ast.Stmt
	hasDefault := false
	var bodies [][]ast.Stmt
	n := 0
	for _, c := range s.Body.List {
		cc := c.(*ast.CommClause)
		bodies = append(bodies, cc.Body)
		if cc.Comm == nil {
			hasDefault = true
			continue
		}
		n++
		comm = cc.Comm
	}
	if n != 1 || !hasDefault {
		w.emit("unknown", 0, 0, "select without default or with several channel arms: "+src(s))
		return
	}
	switch c := comm.(type) {
	case *ast.SendStmt:
		if ch := chanOf(c.Chan); ch >= 0 {
			w.emit("chanTrySend", ch, 0, "")
		} else {
			w.emit("unknown", 0, 0, "select send on "+src(c.Chan))
		}
	case *ast.AssignStmt:
		if u, ok := c.Rhs[0].(*ast.UnaryExpr); ok && u.Op == token.ARROW && chanOf(u.X) >= 0 {
			w.emit("chanTryRecv", chanOf(u.X), 0, "")
		} else {
			w.emit("unknown", 0, 0, "select receive "+src(c))
		}
	case *ast.ExprStmt:
		if u, ok := c.X.(*ast.UnaryExpr); ok && u.Op == token.ARROW && chanOf(u.X) >= 0 {
			w.emit("chanTryRecv", chanOf(u.X), 0, "")
		} else {
			w.emit("unknown", 0, 0, "select "+src(c))
		}
	default:
		w.emit("unknown", 0, 0, "select arm "+src(comm))
	}
	for _, b := range bodies {
		for _, st := range b {
			w.stmt(st)
		}
	}
}

func (w *walker) block(b *ast.BlockStmt) {
	if b == nil {
		return
	}
	for _, st := range b.List {
		w.stmt(st)
	}
}

type fnInfo struct {
	Name, Recv string
	Items      []Item
}

func main() {
	if len(os.Args) != 3 {
		fmt.Fprintln(os.Stderr, "usage: gofacts <repo dir> <out.lean>")
		os.Exit(2)
	}
	dir, out := os.Args[1], os.Args[2]
	files, _ := filepath.Glob(filepath.Join(dir, "*.go"))
	sort.Strings(files)
	var fns []fnInfo
	traceBlocks := [][2]string{} // function, statements inside `if trace { … }` that are not traceLogger.Print* calls
	traceCount := 0
	for _, f := range files {
		if strings.HasSuffix(f, "_test.go") {
			continue
		}
		af, err := parser.ParseFile(fset, f, nil, 0)
		if err != nil {
			fmt.Fprintln(os.Stderr, err)
			os.Exit(1)
		}
		for _, im := range af.Imports {
			p := strings.Trim(im.Path.Value, "\"")
			n := p[strings.LastIndex(p, "/")+1:]
			if im.Name != nil {
				n = im.Name.Name
			}
			imported[n] = true
		}
		for _, d := range af.Decls {
			if gd, ok := d.(*ast.GenDecl); ok {
				collectState(gd)
			}
			fd, ok := d.(*ast.FuncDecl)
			if !ok || fd.Body == nil {
				continue
			}
			name, recv := fd.Name.Name, "none"
			if fd.Recv != nil && len(fd.Recv.List) > 0 {
				t := src(fd.Recv.List[0].Type)
				recv = "value"
				if strings.HasPrefix(t, "*") {
					recv = "pointer"
				}
				name = strings.TrimPrefix(t, "*") + "." + name
			}
			var items []Item
			w := &walker{fn: name, items: &items}
			w.block(fd.Body)
			fns = append(fns, fnInfo{name, recv, items})
			// trace blocks
			ast.Inspect(fd.Body, func(n ast.Node) bool {
				is, ok := n.(*ast.IfStmt)
				if !ok {
					return true
				}
				cond := src(is.Cond)
				if cond != "trace" && !strings.HasSuffix(cond, "&& trace") && !(strings.HasPrefix(cond, "!ok") && false) {
					if id, ok := is.Cond.(*ast.Ident); !ok || id.Name != "trace" {
						return true
					}
				}
				traceCount++
				for _, st := range is.Body.List {
					es, ok := st.(*ast.ExprStmt)
					okCall := false
					if ok {
						if call, ok := es.X.(*ast.CallExpr); ok {
							if sel, ok := call.Fun.(*ast.SelectorExpr); ok {
								if id, ok := sel.X.(*ast.Ident); ok && id.Name == "traceLogger" && strings.HasPrefix(sel.Sel.Name, "Print") {
									okCall = true
								}
							}
						}
					}
					if !okCall {
						traceBlocks = append(traceBlocks, [2]string{name, src(st)})
					}
				}
				if is.Else != nil {
					traceBlocks = append(traceBlocks, [2]string{name, "else branch of an `if trace`"})
				}
				return true
			})
		}
	}
	sort.Slice(fns, func(i, j int) bool { return fns[i].Name < fns[j].Name })
	// keep only the "synchronisation cone": functions that contain a fact other than a call, and
	// functions from which such a function can be reached by (name-resolved) calls.  Calls that
	// leave the cone cannot influence any obligation and are dropped.
	{
		byM := map[string][]int{}
		for i, f := range fns {
			m := f.Name
			if k := strings.LastIndex(m, "."); k >= 0 {
				m = m[k+1:]
			}
			byM[m] = append(byM[m], i)
		}
		in := make([]bool, len(fns))
		for i, f := range fns {
			for _, it := range f.Items {
				if it.Kind != "call" {
					in[i] = true
				}
			}
		}
		for changed := true; changed; {
			changed = false
			for i, f := range fns {
				if in[i] {
					continue
				}
				for _, it := range f.Items {
					if it.Kind == "call" {
						for _, g := range byM[it.Name] {
							if in[g] {
								in[i], changed = true, true
							}
						}
					}
				}
			}
		}
		var kept []fnInfo
		for i, f := range fns {
			if in[i] {
				kept = append(kept, f)
			}
		}
		keptNames := map[string]bool{}
		for _, f := range kept {
			m := f.Name
			if k := strings.LastIndex(m, "."); k >= 0 {
				m = m[k+1:]
			}
			keptNames[m] = true
		}
		for i := range kept {
			var its []Item
			for _, it := range kept[i].Items {
				if it.Kind == "call" && !keptNames[it.Name] {
					continue
				}
				its = append(its, it)
			}
			kept[i].Items = its
		}
		fns = kept
	}
	// only functions that synchronise, touch a tracked field or channel, or call by a name that does, are interesting;
	// everything is emitted for the call graph, with names as ids.
	fnID := map[string]int{}
	for i, f := range fns {
		fnID[f.Name] = i
	}
	// method name -> function ids (syntactic call resolution by name)
	byMethod := map[string][]int{}
	for i, f := range fns {
		m := f.Name
		if k := strings.LastIndex(m, "."); k >= 0 {
			m = m[k+1:]
		}
		byMethod[m] = append(byMethod[m], i)
	}
	var b strings.Builder
	b.WriteString("/- GENERATED by tools/gofacts from the go-restful sources. Do not edit: regenerated on every run. -/\n")
	b.WriteString("import Restful.Gen.Types\nnamespace Restful.Gen\n\n")
	q := func(s string) string { return "\"" + strings.NewReplacer("\\", "\\\\", "\"", "\\\"").Replace(s) + "\"" }
	fmt.Fprintf(&b, "def lockNames : List String := [%s]\n", joinQ(lockNames, q))
	fmt.Fprintf(&b, "def fieldNames : List String := [%s]\n", joinQ(fieldNames, q))
	fmt.Fprintf(&b, "def chanNames : List String := [%s]\n", joinQ(chanNames, q))
	names := make([]string, len(fns))
	recvs := make([]string, len(fns))
	for i, f := range fns {
		names[i] = f.Name
		recvs[i] = f.Recv
	}
	fmt.Fprintf(&b, "def fnNames : List String := [%s]\n", joinQ(names, q))
	fmt.Fprintf(&b, "def fnRecvPointer : List Bool := [%s]\n\n", strings.Join(mapS(recvs, func(s string) string { return fmt.Sprint(s == "pointer") }), ", "))
	b.WriteString("def items : List Item := [\n")
	first := true
	for fi, f := range fns {
		for _, it := range f.Items {
			var op string
			switch it.Kind {
			case "acq":
				op = fmt.Sprintf(".acq %d %s", it.A, mode(it.B))
			case "rel":
				op = fmt.Sprintf(".rel %d %s", it.A, mode(it.B))
			case "deferRel":
				op = fmt.Sprintf(".deferRel %d %s", it.A, mode(it.B))
			case "read":
				op = fmt.Sprintf(".read %d", it.A)
			case "write":
				op = fmt.Sprintf(".write %d", it.A)
			case "call":
				ids := byMethod[it.Name]
				if len(ids) == 0 {
					continue // a call out of the package
				}
				op = fmt.Sprintf(".call [%s]", strings.Join(mapI(ids), ", "))
			case "deferCall":
				op = fmt.Sprintf(".deferCall %s", q(it.Name))
			case "chanTryRecv":
				op = fmt.Sprintf(".chanTryRecv %d", it.A)
			case "chanTrySend":
				op = fmt.Sprintf(".chanTrySend %d", it.A)
			case "chanSend":
				op = fmt.Sprintf(".chanSend %d", it.A)
			case "chanRecv":
				op = fmt.Sprintf(".chanRecv %d", it.A)
			case "chanLen":
				op = fmt.Sprintf(".chanLen %d", it.A)
			case "assignNil":
				op = fmt.Sprintf(".assignNil %s", q(it.Name))
			case "aliasAppend":
				op = fmt.Sprintf(".aliasAppend %s", q(it.Name))
			case "go":
				op = fmt.Sprintf(".goStmt %s", q(it.Name))
			default:
				op = fmt.Sprintf(".unknown %s", q(it.Name))
			}
			if !first {
				b.WriteString(",\n")
			}
			first = false
			nd := false
			for _, c := range it.Conds {
				if c == "!w.dynamicRoutes" {
					nd = true
				}
			}
			fmt.Fprintf(&b, "  ⟨%d, %s, %d, %v, %v⟩", fi, op, it.Depth, it.Inline, nd)
		}
	}
	b.WriteString("]\n\n")
	fmt.Fprintf(&b, "/-- `if trace { … }` blocks found: %d; statements inside them that are not `traceLogger.Print*` calls -/\n", traceCount)
	fmt.Fprintf(&b, "def traceBlockCount : Nat := %d\n", traceCount)
	b.WriteString("def traceBlockOther : List (String × String) := [")
	for i, tb := range traceBlocks {
		if i > 0 {
			b.WriteString(", ")
		}
		fmt.Fprintf(&b, "(%s, %s)", q(tb[0]), q(tb[1]))
	}
	b.WriteString("]\n\n")
	// the shape of the state: package-level variables (name, type or initialiser as written) and the
	// fields of every struct type (the model's state has one component per entry: a new variable or
	// field is state the model does not know about)
	sort.Slice(pkgVars, func(i, j int) bool { return pkgVars[i][0] < pkgVars[j][0] })
	b.WriteString("def pkgVars : List (String × String) := [")
	for i, v := range pkgVars {
		if i > 0 {
			b.WriteString(", ")
		}
		fmt.Fprintf(&b, "(%s, %s)", q(v[0]), q(v[1]))
	}
	b.WriteString("]\n")
	sort.Slice(structs, func(i, j int) bool { return structs[i].Name < structs[j].Name })
	b.WriteString("def structFields : List (String × List String) := [\n")
	for i, st := range structs {
		if i > 0 {
			b.WriteString(",\n")
		}
		fmt.Fprintf(&b, "  (%s, [%s])", q(st.Name), joinQ(st.Fields, q))
	}
	b.WriteString("]\n\n")
	sort.Slice(consts, func(i, j int) bool { return consts[i][0] < consts[j][0] })
	b.WriteString("/-- string and integer constants of the package, as written -/\ndef consts : List (String × String) := [")
	for i, v := range consts {
		if i > 0 {
			b.WriteString(", ")
		}
		fmt.Fprintf(&b, "(%s, %s)", q(v[0]), q(v[1]))
	}
	b.WriteString("]\n\nend Restful.Gen\n")
	if err := os.WriteFile(out, []byte(b.String()), 0o644); err != nil {
		fmt.Fprintln(os.Stderr, err)
		os.Exit(1)
	}
}

type structInfo struct {
	Name   string
	Fields []string
}

var pkgVars, consts [][2]string
var structs []structInfo

// collectState records package-level `var`s, `const`s and struct types of one declaration.
func collectState(gd *ast.GenDecl) {
	for _, sp := range gd.Specs {
		switch x := sp.(type) {
		case *ast.ValueSpec:
			for i, n := range x.Names {
				if n.Name == "_" {
					continue
				}
				desc := ""
				if x.Type != nil {
					desc = src(x.Type)
				}
				if i < len(x.Values) {
					v := src(x.Values[i])
					if len(v) > 120 {
						v = v[:120]
					}
					if desc != "" {
						desc += " = "
					}
					desc += v
				}
				desc = strings.Join(strings.Fields(desc), " ")
				if gd.Tok.String() == "const" {
					consts = append(consts, [2]string{n.Name, desc})
				} else {
					pkgVars = append(pkgVars, [2]string{n.Name, desc})
				}
			}
		case *ast.TypeSpec:
			if st, ok := x.Type.(*ast.StructType); ok {
				info := structInfo{Name: x.Name.Name}
				for _, f := range st.Fields.List {
					t := strings.Join(strings.Fields(src(f.Type)), " ")
					if len(f.Names) == 0 {
						info.Fields = append(info.Fields, "(embedded) "+t)
					}
					for _, n := range f.Names {
						info.Fields = append(info.Fields, n.Name+" "+t)
					}
				}
				structs = append(structs, info)
			}
		}
	}
}

func mode(m int) string {
	if m == 1 {
		return ".W"
	}
	return ".R"
}
func joinQ(xs []string, q func(string) string) string { return strings.Join(mapS(xs, q), ", ") }
func mapS(xs []string, f func(string) string) []string {
	out := make([]string, len(xs))
	for i, x := range xs {
		out[i] = f(x)
	}
	return out
}
func mapI(xs []int) []string {
	out := make([]string, len(xs))
	for i, x := range xs {
		out[i] = fmt.Sprint(x)
	}
	return out
}
