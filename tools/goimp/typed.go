// typed.go: the part of the translation that needs to know the static type of an expression —
// struct values, pointers, slices of structs, values of function type — by a small syntactic type
// inference (declared types of parameters, results, struct fields and package functions).
//
//	struct T of the package          structure GoT with the fields whose types are in the subset
//	*T                               Option GoT       (nil = none; a field access through a nil pointer
//	                                                   is a panic: `(← deref p).f`)
//	&xs[i]                           some (← at? xs i)
//	*http.Request                    HttpRequest      (prelude: Method, URL.Path, Header.Get, ContentLength)
//	*regexp.Regexp                   Regexp           (prelude: the FindStringSubmatch function; nil result = [])
//	error / ServiceError             GoErr            (NewError(c, m) = some {code, message, header})
//	func(*http.Request) bool         HttpRequest → Bool
//	T{a, b} / T{f: a}                { f₁ := a, f₂ := b }
//	xs = xs[:0] (in-place filter)    xs := []         only in the shape whose aliasing cannot be observed (see inPlaceFilterOK)
//	continue L                       flag + break     for a loop nested directly in the loop labelled L
package main

import (
	"fmt"
	"go/ast"
	"go/token"
	"strings"
)

// structs for which a Lean structure is generated, in dependency order
var genStructs = []string{"pathExpression", "Route", "curlyRoute", "WebService", "routeCandidate", "dispatcherCandidate", "sortableRouteCandidates", "sortableDispatcherCandidates", "Request", "Container", "CrossOriginResourceSharing", "mime", "RouteBuilder"}

// effect types: what a function does to a `*Response` / a `*FilterChain` is a log the function returns
//
//	resp.AddHeader(k, v)            resp := push resp (k, v)
//	chain.ProcessFilter(req, resp)  chain := push chain resp     (what had been added when control was passed on)
//	mux.HandleFunc(p, c.dispatch)   mux := (← X.mux_HandleFunc mux p)   (uninterpreted and partial: net/http panics on a pattern
//	                                                                        that is registered already; the handler must be c.dispatch)
var effectTypes = map[string]string{"*Response": "RespLog", "*FilterChain": "ChainLog", "*http.ServeMux": "MuxLog"}

// mutates: the pointer parameters (receiver included) a function changes, by name, in the order in
// which their final values are appended to the result.  The translator checks the list: an effect, a field
// assignment or a call that changes a pointer parameter which is not listed fails the translation.
var mutates = map[string][]string{
	"CrossOriginResourceSharing.Filter":                      {"resp", "chain"},
	"CrossOriginResourceSharing.doActualRequest":             {"resp"},
	"CrossOriginResourceSharing.doPreflightRequest":          {"c", "resp"},
	"CrossOriginResourceSharing.setOptionsHeaders":           {"resp"},
	"CrossOriginResourceSharing.setAllowOriginHeader":        {"resp"},
	"CrossOriginResourceSharing.checkAndSetExposeHeaders":    {"resp"},
	"CrossOriginResourceSharing.checkAndSetAllowCredentials": {"resp"},
	"Container.OPTIONSFilter":                                {"resp", "chain"},
	"Container.addHandler":                                   {"serveMux"},
	"WebService.RemoveRoute":                                 {"w"},
	"Route.postBuild":                                        {"r"},
	"WebService.compilePathExpression":                       {"w"},
	"WebService.Path":                                        {"w"},
	"Container.Add":                                          {"c", "service"},
	"RouteBuilder.copyDefaults":                              {"b"},
}
var isGenStruct = map[string]bool{}

// flattenRecv: targets translated before struct support whose receiver stays flattened into
// parameters (their tie theorems are stated over the flattened signature)
var flattenRecv = map[string]bool{"defaultPathProcessor.ExtractParameters": true, "Route.matchesAccept": true, "Route.matchesContentType": true, "Response.EntityWriter": true}

// typeDefs: `type X <non-struct type>` of the package
var typeDefs = map[string]ast.Expr{"regexpMatch": &ast.ArrayType{Elt: ast.NewIdent("string")}}

// methodAsField: accessor methods read as the field they return (web_service.go `Routes()` returns
// `w.routes`, or a copy of it taken under the read lock when dynamic routes are on)
var methodAsField = map[string]string{"WebService.Routes": "routes", "WebService.RootPath": "rootPath", "Container.RegisteredWebServices": "webServices"}

// methodAppend: pointer-receiver methods that append their argument to the receiver (`*s = append(*s, x)`)
var methodAppend = map[string]bool{"sortableCurlyRoutes.add": true}

// constants of other packages, by value (net/http)
var extConsts = map[string]string{
	"http.StatusNotFound": "(404 : Int)", "http.StatusMethodNotAllowed": "(405 : Int)", "http.StatusNotAcceptable": "(406 : Int)",
	"http.StatusUnsupportedMediaType": "(415 : Int)", "http.StatusOK": "(200 : Int)", "http.StatusInternalServerError": "(500 : Int)",
	"http.MethodGet": `("GET".toList : Str)`, "http.MethodPost": `("POST".toList : Str)`, "http.MethodPut": `("PUT".toList : Str)`,
	"http.MethodPatch": `("PATCH".toList : Str)`, "http.MethodDelete": `("DELETE".toList : Str)`, "http.MethodHead": `("HEAD".toList : Str)`,
	"http.MethodOptions": `("OPTIONS".toList : Str)`,
}

func goName(st string) string { return "Go" + strings.ToUpper(st[:1]) + st[1:] }

func resolve(e ast.Expr) ast.Expr {
	for i := 0; i < 8; i++ {
		id, ok := e.(*ast.Ident)
		if !ok {
			return e
		}
		d, ok := typeDefs[id.Name]
		if !ok {
			return e
		}
		e = d
	}
	return e
}

// opaque: values the translated functions only copy, test for nil or hand to an uninterpreted function
// (functions with other signatures, interface{}, other maps, pointers to structs that are not generated)
func opaqueType(e ast.Expr) bool {
	switch x := resolve(e).(type) {
	case *ast.FuncType, *ast.InterfaceType:
		return true
	case *ast.MapType:
		return true
	case *ast.StarExpr:
		if id, ok := resolve(x.X).(*ast.Ident); ok {
			if _, isStruct := structFields[id.Name]; isStruct && !isGenStruct[id.Name] {
				return true
			}
			if id.Name == "bool" || id.Name == "int" || id.Name == "string" {
				return false
			}
		}
	}
	return false
}

// leanTypeExt: types beyond the basic subset; "" when outside
func leanTypeExt(e ast.Expr) string {
	if lt := leanTypeExt0(e); lt != "" {
		return lt
	}
	if opaqueType(e) {
		return "Option Opaque"
	}
	return ""
}

func leanTypeExt0(e ast.Expr) string {
	e = resolve(e)
	switch x := e.(type) {
	case *ast.Ident:
		if isGenStruct[x.Name] {
			return goName(x.Name)
		}
		if x.Name == "ServiceError" {
			return "GoErr"
		}
	case *ast.StarExpr:
		if et, ok := effectTypes[src(x)]; ok {
			return et
		}
		switch src(x.X) {
		case "http.Request":
			return "HttpRequest"
		case "regexp.Regexp":
			return "Regexp"
		}
		if t := leanType(x.X); t != "" {
			return "Option " + paren(t)
		}
	case *ast.SelectorExpr:
		if src(x) == "http.Header" {
			return "List (Str × List Str)"
		}
		if src(x) == "http.ResponseWriter" {
			return "HttpWriter"
		}
	case *ast.ArrayType:
		if x.Len == nil {
			if t := leanType(x.Elt); t != "" {
				return "List " + paren(t)
			}
		}
	case *ast.FuncType:
		if x.Params == nil || x.Results == nil || len(x.Results.List) != 1 {
			return ""
		}
		var parts []string
		for _, p := range x.Params.List {
			pt := leanType(p.Type)
			if pt == "" {
				return ""
			}
			n := len(p.Names)
			if n == 0 {
				n = 1
			}
			for i := 0; i < n; i++ {
				parts = append(parts, paren(pt))
			}
		}
		rt := leanType(x.Results.List[0].Type)
		if rt == "" || len(parts) == 0 {
			return ""
		}
		return strings.Join(parts, " → ") + " → " + rt
	}
	return ""
}

// genStructDecls: the Lean structures, fields outside the subset omitted (reading one fails the translation)
func genStructDecls() string {
	var b strings.Builder
	for _, st := range genStructs {
		fields, ok := structFieldOrder[st]
		if !ok {
			continue
		}
		fmt.Fprintf(&b, "/-- `%s` (the fields the translated functions read or set) -/\nstructure %s where\n", st, goName(st))
		n := 0
		for _, f := range fields {
			lt := fieldLeanType(st, f)
			if lt == "" || !usedFields[st][f] {
				continue
			}
			// every field has a default: a structure literal written before a field was used still elaborates
			fmt.Fprintf(&b, "  %s : %s := default\n", mangle(f), lt)
			n++
		}
		if n == 0 {
			b.WriteString("  unit : Unit := ()\n")
		}
		b.WriteString("  deriving Inhabited\n\n")
	}
	return b.String()
}

var structFieldOrder = map[string][]string{}

// fieldLeanType: a field of function type can be nil and is tested for it: it is an Option
func fieldLeanType(st, f string) string {
	ft := structFields[st][f]
	lt := leanType(ft)
	if lt == "" {
		return ""
	}
	if _, isFn := resolve(ft).(*ast.FuncType); isFn && lt != "Option Opaque" {
		return "Option (" + lt + ")"
	}
	return lt
}

func isFuncField(st, f string) bool {
	_, isFn := resolve(structFields[st][f]).(*ast.FuncType)
	return isFn && leanType(structFields[st][f]) != "Option Opaque"
}

// usedFields: the fields some translated function reads or sets; only these are emitted, so that a new
// field nobody translated touches leaves the generated file as it was
var usedFields = map[string]map[string]bool{}

func useField(st, f string) {
	if usedFields[st] == nil {
		usedFields[st] = map[string]bool{}
	}
	usedFields[st][f] = true
}

// ---------------------------------------------------------------------------------------------
// type inference

func (t *tr) varType(n string) ast.Expr {
	for c := t.sc; c != nil; c = c.parent {
		if c.vars[n] {
			return c.types[n]
		}
	}
	return nil
}

func (t *tr) setType(n string, ty ast.Expr) {
	if n == "_" || ty == nil {
		return
	}
	if t.sc.types == nil {
		t.sc.types = map[string]ast.Expr{}
	}
	t.sc.types[n] = ty
}

func elemType(ty ast.Expr) ast.Expr {
	ty = resolve(ty)
	if a, ok := ty.(*ast.ArrayType); ok {
		return a.Elt
	}
	if id, ok := ty.(*ast.Ident); ok && id.Name == "string" {
		return ast.NewIdent("byte")
	}
	return nil
}

// structName: the package struct a type denotes, and whether through a pointer
func structName(ty ast.Expr) (string, bool) {
	ty = resolve(ty)
	switch x := ty.(type) {
	case *ast.Ident:
		if _, ok := structFields[x.Name]; ok {
			return x.Name, false
		}
	case *ast.StarExpr:
		if id, ok := resolve(x.X).(*ast.Ident); ok {
			if _, ok := structFields[id.Name]; ok {
				return id.Name, true
			}
		}
	}
	return "", false
}

func (t *tr) typeOf(e ast.Expr) ast.Expr {
	switch x := e.(type) {
	case *ast.ParenExpr:
		return t.typeOf(x.X)
	case *ast.Ident:
		if ty := t.varType(x.Name); ty != nil {
			return ty
		}
		if t.recvStruct != "" && x.Name == t.recv {
			return t.fd.Recv.List[0].Type
		}
		if ty, ok := t.paramStruct[x.Name]; ok {
			return ty
		}
		if ty, ok := pkgVarTypes[x.Name]; ok {
			return ty
		}
		if v, ok := pkgVars[x.Name]; ok {
			if cl, ok := v.(*ast.CompositeLit); ok {
				return cl.Type
			}
		}
	case *ast.SelectorExpr:
		if st, _ := structName(t.typeOf(x.X)); st != "" {
			return structFields[st][x.Sel.Name]
		}
	case *ast.IndexExpr:
		return elemType(t.typeOf(x.X))
	case *ast.SliceExpr:
		return t.typeOf(x.X)
	case *ast.UnaryExpr:
		if x.Op == token.AND {
			if ty := t.typeOf(x.X); ty != nil {
				return &ast.StarExpr{X: ty}
			}
		}
	case *ast.StarExpr:
		if p, ok := resolve(t.typeOf(x.X)).(*ast.StarExpr); ok {
			return p.X
		}
	case *ast.CompositeLit:
		return x.Type
	case *ast.CallExpr:
		if id, ok := x.Fun.(*ast.Ident); ok {
			switch id.Name {
			case "append":
				return t.typeOf(x.Args[0])
			case "make":
				return x.Args[0]
			}
			if fd, ok := funcs[id.Name]; ok && fd.Type.Results != nil && len(fd.Type.Results.List) == 1 {
				return fd.Type.Results.List[0].Type
			}
		}
		if sel, ok := x.Fun.(*ast.SelectorExpr); ok {
			if st, _ := structName(t.typeOf(sel.X)); st != "" {
				if fd, ok := funcs[st+"."+sel.Sel.Name]; ok && fd.Type.Results != nil && len(fd.Type.Results.List) == 1 && len(fd.Type.Results.List[0].Names) <= 1 {
					return fd.Type.Results.List[0].Type
				}
			}
			if src(t.typeOf(sel.X)) == "*regexp.Regexp" && sel.Sel.Name == "FindStringSubmatch" {
				// a pseudo type: []string that is nil exactly when empty
				return ast.NewIdent("regexpMatch")
			}
		}
	}
	return nil
}

// typedSelector: `x.f` where x has a struct (or pointer to struct) type, and the *http.Request accessors
func (t *tr) typedSelector(e *ast.SelectorExpr) (string, bool, bool) {
	// httpRequest.Method / .ContentLength / .URL.Path
	if inner, ok := e.X.(*ast.SelectorExpr); ok && e.Sel.Name == "Path" && inner.Sel.Name == "URL" && src(t.typeOf(inner.X)) == "*http.Request" {
		a, m := t.expr(inner.X)
		return a + ".path", m, true
	}
	xt := t.typeOf(e.X)
	if src(xt) == "*http.Request" {
		a, m := t.expr(e.X)
		switch e.Sel.Name {
		case "Method":
			return a + ".method", m, true
		case "ContentLength":
			return a + ".contentLength", m, true
		}
		fail("field %s of *http.Request is outside the prelude's model of a request", e.Sel.Name)
	}
	st, ptr := structName(xt)
	if st == "" || !isGenStruct[st] {
		return "", false, false
	}
	ft, ok := structFields[st][e.Sel.Name]
	if !ok || leanType(ft) == "" {
		fail("field %s.%s has a type outside the subset", st, e.Sel.Name)
	}
	useField(st, e.Sel.Name)
	a, m := t.expr(e.X)
	if ptr {
		return "(← deref " + a + ")." + mangle(e.Sel.Name), true, true
	}
	return a + "." + mangle(e.Sel.Name), m, true
}

// typedCall: method calls whose receiver type is known
func (t *tr) typedCall(c *ast.CallExpr) (string, bool, bool) {
	sel, ok := c.Fun.(*ast.SelectorExpr)
	if !ok {
		// a call of a local of function type
		if id, ok := c.Fun.(*ast.Ident); ok && t.sc.has(id.Name) {
			if _, isFn := resolve(t.varType(id.Name)).(*ast.FuncType); isFn {
				a, mon := t.args(c.Args)
				return "(" + t.lname(id.Name) + " " + strings.Join(a, " ") + ")", mon, true
			}
		}
		return "", false, false
	}
	// httpRequest.Header.Get(k)
	if inner, ok := sel.X.(*ast.SelectorExpr); ok && sel.Sel.Name == "Get" && inner.Sel.Name == "Header" && src(t.typeOf(inner.X)) == "*http.Request" && len(c.Args) == 1 {
		a, m1 := t.expr(inner.X)
		k, m2 := t.expr(c.Args[0])
		return "(" + a + ".header " + k + ")", m1 || m2, true
	}
	// httpWriter.Header().Get(k)
	if hc, ok := sel.X.(*ast.CallExpr); ok && sel.Sel.Name == "Get" && len(c.Args) == 1 && len(hc.Args) == 0 {
		if hs, ok := hc.Fun.(*ast.SelectorExpr); ok && hs.Sel.Name == "Header" && src(t.typeOf(hs.X)) == "http.ResponseWriter" {
			a, m1 := t.expr(hs.X)
			k, m2 := t.expr(c.Args[0])
			return "(" + a + ".header " + k + ")", m1 || m2, true
		}
	}
	rt := t.typeOf(sel.X)
	if src(rt) == "*regexp.Regexp" {
		a, m1 := t.expr(sel.X)
		args, m2 := t.args(c.Args)
		switch sel.Sel.Name {
		case "FindStringSubmatch":
			return "(" + a + " " + args[0] + ")", m1 || m2, true
		case "MatchString":
			return "(!(" + a + " " + args[0] + ").isEmpty)", m1 || m2, true
		}
		fail("method %s of *regexp.Regexp", sel.Sel.Name)
	}
	// a call through a field of function type: c.F(x)
	if fst, fptr := structName(t.typeOf(sel.X)); fst != "" && isGenStruct[fst] {
		if _, isField := structFields[fst][sel.Sel.Name]; isField && isFuncField(fst, sel.Sel.Name) {
			useField(fst, sel.Sel.Name)
			a, _ := t.expr(sel.X)
			if fptr {
				a = "(← deref " + a + ")"
			}
			args, _ := t.args(c.Args)
			return "((← deref " + a + "." + mangle(sel.Sel.Name) + ") " + strings.Join(args, " ") + ")", true, true
		}
	}
	st, ptr := structName(rt)
	named := ""
	if id, ok := rt.(*ast.Ident); ok {
		named = id.Name // named non-struct type such as sortableCurlyRoutes
	}
	recvExpr := func() (string, bool) {
		a, m := t.expr(sel.X)
		if ptr {
			return "(← deref " + a + ")", true
		}
		return a, m
	}
	key := st + "." + sel.Sel.Name
	if st == "" {
		key = named + "." + sel.Sel.Name
	}
	if f, ok := methodAsField[key]; ok && len(c.Args) == 0 {
		useField(st, f)
		a, m := recvExpr()
		return a + "." + mangle(f), m, true
	}
	if isTarget[key] {
		fd := funcs[key]
		args, mon := t.args(c.Args)
		if flattenRecv[key] {
			// re-root the callee's flattened receiver fields at this call's receiver
			callee := flatExtras[key]
			rname := fd.Recv.List[0].Names[0].Name
			a, m := recvExpr()
			mon = mon || m
			for _, ex := range callee {
				f := strings.TrimPrefix(ex.text, rname+".")
				if strings.Contains(f, ".") {
					fail("nested receiver field %s of %s at a call site", ex.text, key)
				}
				useField(st, f)
				args = append(args, a+"."+mangle(f))
			}
		} else if fd.Recv != nil && len(fd.Recv.List[0].Names) == 1 && recvUsed[key] {
			a, m := t.expr(sel.X)
			mon = mon || m
			// value receiver called through a pointer: dereference; pointer receiver called on a value: its address
			_, calleePtr := fd.Recv.List[0].Type.(*ast.StarExpr)
			if st != "" {
				if ptr && !calleePtr {
					a = "(← deref " + a + ")"
					mon = true
				} else if !ptr && calleePtr {
					a = "(some " + a + ")"
				}
			}
			args = append([]string{a}, args...)
		}
		return "(← " + leanName(key) + " X " + strings.Join(args, " ") + ")", true, true
	}
	return "", false, false
}

var flatExtras = map[string][]extra{}
var recvUsed = map[string]bool{}

// composite literals: struct values, http.Header / map literals with one key, slice literals
func (t *tr) composite(x *ast.CompositeLit) (string, bool) {
	if x.Type == nil {
		fail("untyped composite literal")
	}
	if lt := leanType(x.Type); lt != "" && len(x.Elts) == 0 && !isGenStruct[src(x.Type)] {
		return zero(lt), false
	}
	mon := false
	if st, _ := structName(x.Type); st != "" && isGenStruct[st] {
		return t.structLit(x, st, false)
	}
	if false {
		st := ""
		var fs []string
		order := structFieldOrder[st]
		for i, el := range x.Elts {
			name := ""
			var val ast.Expr = el
			if kv, ok := el.(*ast.KeyValueExpr); ok {
				name = kv.Key.(*ast.Ident).Name
				val = kv.Value
			} else {
				if len(x.Elts) != len(order) {
					fail("positional struct literal %s", src(x))
				}
				name = order[i]
			}
			if leanType(structFields[st][name]) == "" {
				fail("struct literal sets %s.%s whose type is outside the subset", st, name)
			}
			useField(st, name)
			v, m := t.expr(val)
			mon = mon || m
			fs = append(fs, mangle(name)+" := "+v)
		}
		if len(fs) != countLeanFields(st) {
			fail("struct literal %s leaves fields to their zero value", src(x))
		}
		return "({ " + strings.Join(fs, ", ") + " } : " + goName(st) + ")", mon
	}
	switch ty := resolve(x.Type).(type) {
	case *ast.ArrayType:
		lt := leanType(ty)
		if lt == "" {
			fail("slice literal %s", src(x))
		}
		var vs []string
		for _, el := range x.Elts {
			v, m := t.expr(el)
			mon = mon || m
			vs = append(vs, v)
		}
		return "([" + strings.Join(vs, ", ") + "] : " + lt + ")", mon
	case *ast.SelectorExpr:
		if src(ty) == "http.Header" {
			var vs []string
			for _, el := range x.Elts {
				kv, ok := el.(*ast.KeyValueExpr)
				if !ok {
					fail("map literal %s", src(x))
				}
				k, m1 := t.expr(kv.Key)
				v, m2 := t.expr(kv.Value)
				mon = mon || m1 || m2
				vs = append(vs, "("+k+", "+v+")")
			}
			return "([" + strings.Join(vs, ", ") + "] : List (Str × List Str))", mon
		}
	}
	fail("composite literal %s", src(x))
	return "", false
}

func countLeanFields(st string) int {
	n := 0
	for _, f := range structFieldOrder[st] {
		if leanType(structFields[st][f]) != "" {
			n++
		}
	}
	return n
}

// ---------------------------------------------------------------------------------------------
// the in-place filter idiom
//
//	P := xs ; xs = xs[:0] ; for _, e := range P { … xs = append(xs, e) … } ; … if len(xs) == 0 { … P … } …
//
// `xs[:0]` shares its backing array with P, so appending to xs overwrites P from the front.  While the
// loop runs the write index never passes the read index; afterwards P is only intact when nothing was
// appended.  The statement is translated as `xs := []` (value semantics) only when, in the rest of the
// enclosing block, P is mentioned nowhere but (a) as the range expression of the very next statement,
// whose body appends nothing but the loop variable to xs and mentions P nowhere, (b) inside
// `if len(xs) == 0 { … }` statements, (c) on the left of a later `P = …` assignment.
func inPlaceFilterOK(rest []ast.Stmt, xs, alias string) string {
	if alias == "" {
		return "no alias statement `" + "P := " + xs + "` directly before"
	}
	// statements that mention neither slice may stand between the truncation and the loop
	mentions := func(n ast.Node) bool {
		m := false
		ast.Inspect(n, func(n ast.Node) bool {
			if id, ok := n.(*ast.Ident); ok && (id.Name == alias || id.Name == xs) {
				m = true
			}
			return true
		})
		return m
	}
	for len(rest) > 0 && !mentions(rest[0]) {
		rest = rest[1:]
	}
	if len(rest) == 0 {
		return "nothing follows"
	}
	loop, ok := rest[0].(*ast.RangeStmt)
	if !ok || src(loop.X) != alias || loop.Value == nil {
		return "the next statement is not `for _, e := range " + alias + "`"
	}
	lv := src(loop.Value)
	bad := ""
	ast.Inspect(loop.Body, func(n ast.Node) bool {
		switch s := n.(type) {
		case *ast.Ident:
			if s.Name == alias {
				bad = "the loop body mentions " + alias
			}
		case *ast.AssignStmt:
			for i, l := range s.Lhs {
				if src(l) == xs {
					c, ok := s.Rhs[i].(*ast.CallExpr)
					if !ok || src(c.Fun) != "append" || len(c.Args) != 2 || src(c.Args[0]) != xs || src(c.Args[1]) != lv {
						bad = "the loop body assigns " + xs + " other than by append(" + xs + ", " + lv + ")"
					}
				}
			}
		}
		return true
	})
	if bad != "" {
		return bad
	}
	for _, s := range rest[1:] {
		if as, ok := s.(*ast.AssignStmt); ok && len(as.Lhs) == 1 && src(as.Lhs[0]) == alias {
			mentions := false
			ast.Inspect(as.Rhs[0], func(n ast.Node) bool {
				if id, ok := n.(*ast.Ident); ok && id.Name == alias {
					mentions = true
				}
				return true
			})
			if !mentions {
				return "" // P re-bound: later mentions are about another value
			}
		}
		if is, ok := s.(*ast.IfStmt); ok && is.Init == nil && src(is.Cond) == "len("+xs+") == 0" {
			// inside the guard nothing was appended: P is intact; the else branch must not mention P
			if is.Else != nil {
				m := false
				ast.Inspect(is.Else, func(n ast.Node) bool {
					if id, ok := n.(*ast.Ident); ok && id.Name == alias {
						m = true
					}
					return true
				})
				if m {
					return "the else branch of the emptiness test mentions " + alias
				}
			}
			continue
		}
		m := false
		ast.Inspect(s, func(n ast.Node) bool {
			if id, ok := n.(*ast.Ident); ok && id.Name == alias {
				m = true
			}
			return true
		})
		if m {
			return alias + " is read after the filter loop outside `if len(" + xs + ") == 0`"
		}
	}
	return ""
}

// resultTypes: the declared result types of a called package function or method
func (t *tr) resultTypes(c *ast.CallExpr) []ast.Expr {
	var fd *ast.FuncDecl
	switch f := c.Fun.(type) {
	case *ast.Ident:
		fd = funcs[f.Name]
	case *ast.SelectorExpr:
		if st, _ := structName(t.typeOf(f.X)); st != "" {
			fd = funcs[st+"."+f.Sel.Name]
		} else if id, ok := f.X.(*ast.Ident); ok && id.Name == t.recv {
			fd = funcs[t.recvStruct+"."+f.Sel.Name]
		}
	}
	if fd == nil || fd.Type.Results == nil {
		return nil
	}
	var out []ast.Expr
	for _, r := range fd.Type.Results.List {
		n := len(r.Names)
		if n == 0 {
			n = 1
		}
		for i := 0; i < n; i++ {
			out = append(out, r.Type)
		}
	}
	return out
}

func isEmbeddedIn(st, e string) bool {
	for _, x := range embedded[st] {
		if x == e {
			return true
		}
	}
	return false
}

// structLit: a struct literal; with zeroRest the fields that are not mentioned get their zero value
// (only the fields some translated function uses exist in the Lean structure)
func (t *tr) structLit(x *ast.CompositeLit, st string, zeroRest bool) (string, bool) {
	mon := false
	set := map[string]string{}
	order := structFieldOrder[st]
	for i, el := range x.Elts {
		name := ""
		var val ast.Expr = el
		if kv, ok := el.(*ast.KeyValueExpr); ok {
			name = kv.Key.(*ast.Ident).Name
			val = kv.Value
		} else {
			if len(x.Elts) != len(order) {
				fail("positional struct literal %s", src(x))
			}
			name = order[i]
		}
		// `E: E{f: v, …}` for an embedded struct E of the package: the promoted fields f of E get these values,
		// the promoted fields of E that are not mentioned stay zero (as for every field the literal does not mention)
		if cl, ok := val.(*ast.CompositeLit); ok && isEmbeddedIn(st, name) && cl.Type != nil && src(cl.Type) == name {
			for _, el2 := range cl.Elts {
				kv2, ok := el2.(*ast.KeyValueExpr)
				if !ok {
					fail("positional literal of the embedded struct %s", name)
				}
				f := kv2.Key.(*ast.Ident).Name
				if promotedFrom[st][f] != name {
					fail("field %s of the embedded struct %s is not promoted into %s", f, name, st)
				}
				if leanType(structFields[st][f]) == "" {
					fail("struct literal sets %s.%s whose type is outside the subset", st, f)
				}
				useField(st, f)
				v, m := t.expr(kv2.Value)
				mon = mon || m
				set[f] = v
			}
			continue
		}
		if leanType(structFields[st][name]) == "" {
			fail("struct literal sets %s.%s whose type is outside the subset", st, name)
		}
		useField(st, name)
		v, m := t.expr(val)
		mon = mon || m
		set[name] = v
	}
	var fs []string
	for _, f := range order {
		lt := leanType(structFields[st][f])
		if lt == "" {
			continue
		}
		if v, ok := set[f]; ok {
			fs = append(fs, mangle(f)+" := "+v)
		} else if usedFields[st][f] {
			if !zeroRest && len(x.Elts) > 0 {
				// a keyed literal leaves this field to its zero value
			}
			fs = append(fs, mangle(f)+" := "+zero(lt))
		}
	}
	if len(fs) == 0 {
		return "({} : " + goName(st) + ")", mon
	}
	return "({ " + strings.Join(fs, ", ") + " } : " + goName(st) + ")", mon
}

// noEscape: a local initialised with &T{…} is kept as a struct VALUE; that is only right when the pointer
// is never copied: the name may occur as the root of a selector, as the argument of sort.Reverse, and
// nowhere else
func (t *tr) noEscape(name string) {
	ok := true
	var walk func(n ast.Node, allowed bool)
	_ = walk
	ast.Inspect(t.fd.Body, func(n ast.Node) bool {
		switch x := n.(type) {
		case *ast.SelectorExpr:
			if id, isId := x.X.(*ast.Ident); isId && id.Name == name {
				return false
			}
		case *ast.CallExpr:
			if src(x.Fun) == "sort.Reverse" && len(x.Args) == 1 && src(x.Args[0]) == name {
				return false
			}
		case *ast.AssignStmt:
			if x.Tok == token.DEFINE && len(x.Lhs) == 1 && src(x.Lhs[0]) == name {
				ast.Inspect(x.Rhs[0], func(m ast.Node) bool {
					if id, isId := m.(*ast.Ident); isId && id.Name == name {
						ok = false
					}
					return true
				})
				return false
			}
		case *ast.Ident:
			if x.Name == name {
				ok = false
			}
		}
		return true
	})
	if !ok {
		fail("the pointer %s := &T{…} is copied", name)
	}
}

// paramNames: the names of the receiver and the parameters of a function, in call order
func paramNames(fd *ast.FuncDecl) (recv string, params []string) {
	if fd.Recv != nil && len(fd.Recv.List) == 1 && len(fd.Recv.List[0].Names) == 1 {
		recv = fd.Recv.List[0].Names[0].Name
	}
	for _, p := range fd.Type.Params.List {
		for _, n := range p.Names {
			params = append(params, n.Name)
		}
	}
	return
}

// isPointerParam: the named receiver / parameter of the function being translated has pointer type
func (t *tr) isPointerParam(name string) bool {
	if name == t.recv && t.fd.Recv != nil {
		_, ok := t.fd.Recv.List[0].Type.(*ast.StarExpr)
		return ok
	}
	for _, p := range t.fd.Type.Params.List {
		for _, n := range p.Names {
			if n.Name == name {
				_, ok := p.Type.(*ast.StarExpr)
				return ok
			}
		}
	}
	return false
}

// changed: `name` is changed here; a pointer parameter must be listed in `mutates`
func (t *tr) changed(name string) {
	if t.isPointerParam(name) {
		for _, m := range mutates[t.key] {
			if m == name {
				return
			}
		}
		fail("%s changes what its pointer parameter %s points to, which `mutates` does not list", t.key, name)
	}
}

// effectStmt: statements that change a log or call a function that changes its pointer parameters
func (t *tr) effectStmt(ind int, c *ast.CallExpr) bool {
	sel, ok := c.Fun.(*ast.SelectorExpr)
	if !ok {
		return false
	}
	// resp.Header().Add(k, v) on a *Response: what `Response.AddHeader(k, v)` is (response.go: `r.Header().Add(header, value)`,
	// `Header` being the promoted method of the embedded http.ResponseWriter) — the same log entry
	if hc, ok := sel.X.(*ast.CallExpr); ok && sel.Sel.Name == "Add" && len(c.Args) == 2 && len(hc.Args) == 0 {
		if hs, ok := hc.Fun.(*ast.SelectorExpr); ok && hs.Sel.Name == "Header" {
			if id, ok := hs.X.(*ast.Ident); ok && src(t.typeOf(id)) == "*Response" {
				k, _ := t.expr(c.Args[0])
				v, _ := t.expr(c.Args[1])
				t.changed(id.Name)
				t.line(ind, "%s := push %s (%s, %s)", t.lname(id.Name), t.lname(id.Name), k, v)
				return true
			}
		}
	}
	if id, ok := sel.X.(*ast.Ident); ok {
		switch src(t.typeOf(id)) {
		case "*Response":
			if sel.Sel.Name == "AddHeader" && len(c.Args) == 2 {
				k, _ := t.expr(c.Args[0])
				v, _ := t.expr(c.Args[1])
				t.changed(id.Name)
				t.line(ind, "%s := push %s (%s, %s)", t.lname(id.Name), t.lname(id.Name), k, v)
				return true
			}
			fail("method %s of *Response", sel.Sel.Name)
		case "*http.ServeMux":
			if sel.Sel.Name == "HandleFunc" && len(c.Args) == 2 && src(c.Args[1]) == t.recv+".dispatch" {
				p, _ := t.expr(c.Args[0])
				t.changed(id.Name)
				t.line(ind, "%s := (← %s %s %s)", t.lname(id.Name), ext("mux.HandleFunc", "MuxLog → Str → Option MuxLog"), t.lname(id.Name), p)
				return true
			}
			fail("call %s on a *http.ServeMux", src(c))
		case "*FilterChain":
			if sel.Sel.Name == "ProcessFilter" && len(c.Args) == 2 {
				r, _ := t.expr(c.Args[1])
				t.changed(id.Name)
				t.line(ind, "%s := push %s %s", t.lname(id.Name), t.lname(id.Name), r)
				return true
			}
			fail("method %s of *FilterChain", sel.Sel.Name)
		}
	}
	// a call of a target that changes some of its pointer parameters (its results, if any, are dropped)
	_, ok = t.mutCall(ind, c)
	return ok
}

// mutCall: a call of a target that changes some of its pointer parameters.  Emits the call, writes the
// changed values back into the arguments (a variable, or a field of a struct parameter such as
// `c.ServeMux`) and returns the names that hold the callee's own results.
func (t *tr) mutCall(ind int, c *ast.CallExpr) ([]string, bool) {
	sel, ok := c.Fun.(*ast.SelectorExpr)
	if !ok {
		return nil, false
	}
	st, _ := structName(t.typeOf(sel.X))
	key := st + "." + sel.Sel.Name
	muts, ok := mutates[key]
	if !ok || !isTarget[key] {
		return nil, false
	}
	fd := funcs[key]
	recv, params := paramNames(fd)
	nres := 0
	if fd.Type.Results != nil {
		for _, r := range fd.Type.Results.List {
			if len(r.Names) == 0 {
				nres++
			} else {
				nres += len(r.Names)
			}
		}
	}
	args, _ := t.args(c.Args)
	var all []string
	if recv != "" && isGenStruct[st] {
		a, _ := t.expr(sel.X)
		// a pointer-receiver method called on a struct value takes its address
		if _, isPtrRecv := fd.Recv.List[0].Type.(*ast.StarExpr); isPtrRecv {
			if _, ptr := structName(t.typeOf(sel.X)); !ptr {
				a = "(some " + a + ")"
			}
		} else if _, ptr := structName(t.typeOf(sel.X)); ptr {
			a = "(← deref " + a + ")"
		}
		all = append(all, a)
	}
	all = append(all, args...)
	type wb struct {
		arg    ast.Expr
		unwrap bool
	}
	var outs []wb
	for _, m := range muts {
		var arg ast.Expr
		if m == recv {
			arg = sel.X
		} else {
			for i, p := range params {
				if p == m && i < len(c.Args) {
					arg = c.Args[i]
				}
			}
		}
		// the callee hands back an Option (pointer receiver) where the caller holds a value
		uw := false
		if m == recv {
			if _, isPtrRecv := fd.Recv.List[0].Type.(*ast.StarExpr); isPtrRecv {
				if _, ptr := structName(t.typeOf(sel.X)); !ptr {
					uw = true
				}
			}
		}
		outs = append(outs, wb{arg, uw})
	}
	var tmps []string
	for i := 0; i < nres+len(outs); i++ {
		tmps = append(tmps, t.fresh())
	}
	t.line(ind, "let %s ← %s X %s", tuple(tmps), leanName(key), strings.Join(all, " "))
	for i, o := range outs {
		val := tmps[nres+i]
		if o.unwrap {
			val = "(← deref " + val + ")"
		}
		switch a := o.arg.(type) {
		case *ast.Ident:
			t.changed(a.Name)
			name := mangle(a.Name)
			if t.sc.has(a.Name) {
				name = t.lname(a.Name)
			}
			t.line(ind, "%s := %s", name, val)
		case *ast.SelectorExpr:
			// a field of a struct parameter: c.F
			root, isId := a.X.(*ast.Ident)
			pt, isP := ast.Expr(nil), false
			if isId {
				pt, isP = t.paramStruct[root.Name]
			}
			rst, rptr := structName(pt)
			if !isId || !isP || rst == "" || !isGenStruct[rst] {
				fail("the argument %s for a changed parameter of %s is neither a variable nor a field of a struct parameter", src(a), key)
			}
			t.changed(root.Name)
			useField(rst, a.Sel.Name)
			if rptr {
				t.line(ind, "%s := some { (← deref %s) with %s := %s }", mangle(root.Name), mangle(root.Name), mangle(a.Sel.Name), val)
			} else {
				t.line(ind, "%s := { %s with %s := %s }", mangle(root.Name), mangle(root.Name), mangle(a.Sel.Name), val)
			}
		default:
			fail("the argument for a changed parameter of %s is not a variable", key)
		}
	}
	return tmps[:nres], true
}
