// goimp translates imperative Go functions (loops, local mutation, early return / break / continue,
// several results, slice and index expressions that can panic) statement by statement into Lean 4
// `do`-notation in the `Option` monad (`none` = run-time panic), over the operations of the
// hand-written prelude lean/Restful/Imp/Prelude.lean.
//
//	goimp <package dir> <out.lean>        translate the functions listed in `targets`
//
// The translation is syntactic, one Go statement → one Lean do-element:
//
//	x := e / var x T / named results     let mut x := e   (zero value when there is no initialiser)
//	x = e, x += e, x++                   x := …
//	a, b = e1, e2                        right-hand sides first (temporaries), then the assignments
//	a, b := f(…)                         let (t1, t2) ← f …  then  let mut a := t1 / a := t1
//	if init; c { A } else { B }          do  let mut v := init;  if c then A else B
//	for i, x := range xs { B }           for (i, x) in enum xs do B         (the loop variable is re-bound
//	                                     mutably when the body assigns to it)
//	for i := a; i < b; i++ { B }         for i in range a b do B            (only when B assigns neither i
//	                                     nor a variable of the bound)
//	for { B }  (function in `fuel`)      for _ in range 0 fuel do B ; then `none`: running out of fuel is
//	                                     reported like a panic and the tie theorem shows it never happens
//	return e1, e2 / break / continue     return (e1, e2) / break / continue
//	if trace { traceLogger.… }           dropped (only calls on traceLogger inside; audited as a fact by gofacts)
//	buffer.WriteString(e)                buffer := buffer ++ e   for a `bytes.Buffer` local; `.String()` is the value
//	m[k] = v on map[string]string        m := mapSet m k v
//
// Expressions: identifiers, literals, `len`, comparisons, + - *, `&&` `||` `!` (short circuit is
// kept when the right operand can panic), `xs[i]` → `(← at? xs i)`, `s[a:b]` → `(← slice s a b)`,
// calls of other TARGET functions → `(← F X args)` (an un-listed package-level function without receiver
// that a target calls becomes a target itself, emitted before its caller, when it is translatable),
// calls of whitelisted `strings` functions → the
// model's string library (Restful/Go/Str.lean, prelude), every other call of a package-level function
// or of a function of another package in `externs` → a field of the structure `Ext` (uninterpreted;
// the tie theorems instantiate or quantify over it).  Selector chains rooted at a receiver or
// parameter of struct type (`r.Produces`, `each.pathExpr.tokens`) become extra parameters typed by
// the declared field type.  Package constants are inlined, package variables are fields of `Ext`.
//
// Anything else makes the function untranslatable: the tool then writes a comment naming the
// construct INSTEAD of the definition, so that the tie theorem about it no longer builds. Nothing
// is approximated.
package main

import (
	"bytes"
	"fmt"
	"go/ast"
	"go/parser"
	"go/printer"
	"go/token"
	"os"
	"path/filepath"
	"sort"
	"strconv"
	"strings"
)

// targets: the functions to translate, by `Recv.Name` or `Name`, in dependency order.
var targets = []string{
	"tokenizePath",
	"concatPath",
	"fixedPrefixPath",
	"isTailWildcard",
	"CurlyRouter.regularMatchesPathToken",
	"CurlyRouter.matchesRouteByPathTokens",
	"CurlyRouter.computeWebserviceScore",
	"untokenizePath",
	"defaultPathProcessor.ExtractParameters",
	"Route.matchesAccept",
	"Route.matchesContentType",
	"templateToRegularExpression",
	"RouterJSR311.detectRoute",
	"CurlyRouter.detectWebService",
	"CurlyRouter.selectRoutes",
	"Container.computeAllowedMethods",
	"sortableCurlyRoutes.routes",
	"CurlyRouter.detectRoute",
	"CurlyRouter.SelectRoute",
	"RouterJSR311.selectRoutes",
	"RouterJSR311.detectDispatcher",
	"RouterJSR311.SelectRoute",
	"wantsCompressedResponse",
	"newPathExpression",
	"Route.postBuild",
	"RouteBuilder.copyDefaults",
	"RouteBuilder.Build",
	"insertMime",
	"sortedMimes",
	"Response.EntityWriter",
	"Container.addHandler",
	"WebService.compilePathExpression",
	"WebService.Path",
	"Container.Add",
	"WebService.RemoveRoute",
	"RouterJSR311.extractParams",
	"RouterJSR311.ExtractParameters",
	"CrossOriginResourceSharing.isOriginAllowed",
	"CrossOriginResourceSharing.isValidAccessControlRequestMethod",
	"CrossOriginResourceSharing.isValidAccessControlRequestHeader",
	"CrossOriginResourceSharing.checkAndSetExposeHeaders",
	"CrossOriginResourceSharing.checkAndSetAllowCredentials",
	"CrossOriginResourceSharing.setAllowOriginHeader",
	"CrossOriginResourceSharing.setOptionsHeaders",
	"CrossOriginResourceSharing.doActualRequest",
	"CrossOriginResourceSharing.doPreflightRequest",
	"CrossOriginResourceSharing.Filter",
	"Container.OPTIONSFilter",
}

// fuel: bound of the `for { … }` loops of a function, as a Go expression over its parameters
var fuel = map[string]string{
	"Route.matchesAccept":      "len(mimeTypesWithQuality) + 1",
	"Route.matchesContentType": "len(mimeTypes) + len(MIME_OCTET) + 1",
}

// externs: functions that stay uninterpreted (fields of Ext), with their Lean type
var externs = map[string]string{
	"regexp.MatchString":              "Str → Str → Bool × GoErr",
	"regexp.QuoteMeta":                "Str → Str",
	"path.Join":                       "Str → Str → Str",
	"hasCustomVerb":                   "Str → Bool",
	"isMatchCustomVerb":               "Str → Str → Bool",
	"removeCustomVerb":                "Str → Str",
	"strings.TrimSpace":               "Str → Str",
	"strings.ToLower":                 "Str → Str",
	"strconv.Itoa":                    "Int → Str",
	"regexp.Compile":                  "Str → Regexp × GoErr",
	"nameOfFunction":                  "Option Opaque → Str",
	"strconv.ParseFloat":              "Str → Int → GoFloat × GoErr",
	"trimOWS":                         "Str → Str",
	"entityAccessRegistry.accessorAt": "Str → GoAccessor × Bool",
}

var fset = token.NewFileSet()

func src(n ast.Node) string {
	var b bytes.Buffer
	printer.Fprint(&b, fset, n)
	return b.String()
}

type untranslatable struct{ why string }

func fail(format string, a ...interface{}) { panic(untranslatable{fmt.Sprintf(format, a...)}) }

var reserved = map[string]bool{}

func init() {
	for _, w := range strings.Fields(`at from fun in end do then else if let have show open by with match matches def theorem namespace section
 where deriving instance structure class import true false some none decide Type Prop Sort forall exists for return mut try catch finally
 unless using local private protected variable universe example abbrev axiom inductive mutual extends macro syntax notation infix infixl
 infixr prefix postfix set_option attribute export nomatch nofun calc suffices obtain this sorry break continue X len slice range enum index
 push pure failure id not and or max min repeat while`) {
		reserved[w] = true
	}
}

func mangle(s string) string {
	if reserved[s] {
		return s + "'"
	}
	return s
}

// ---------------------------------------------------------------------------------------------
// package facts

var funcs = map[string]*ast.FuncDecl{}              // "Recv.Name" / "Name" -> decl
var funcFile = map[string]string{}                  // -> file:line
var structFields = map[string]map[string]ast.Expr{} // struct -> field -> type
var constVals = map[string]ast.Expr{}               // package constants with a literal value
var pkgVars = map[string]ast.Expr{}                 // package variables: name -> declared type or initial value
var pkgVarTypes = map[string]ast.Expr{}             // package variables with a declared type
var promotedFrom = map[string]map[string]string{}   // struct -> promoted field -> the embedded struct that declares it
var embedded = map[string][]string{}                // struct -> embedded package structs (their fields are promoted)
var isTarget = map[string]bool{}
var extUsed = map[string]string{} // Ext field -> Lean type

func recvName(fd *ast.FuncDecl) string {
	if fd.Recv == nil || len(fd.Recv.List) == 0 {
		return ""
	}
	t := fd.Recv.List[0].Type
	if s, ok := t.(*ast.StarExpr); ok {
		t = s.X
	}
	if id, ok := t.(*ast.Ident); ok {
		return id.Name
	}
	return "?"
}

func leanName(key string) string { return strings.ReplaceAll(key, ".", "_") }

// leanType of a declared Go type; "" when outside the subset
func leanType(e ast.Expr) string {
	switch x := e.(type) {
	case *ast.Ident:
		switch x.Name {
		case "string":
			return "Str"
		case "int":
			return "Int"
		case "bool":
			return "Bool"
		case "error":
			return "GoErr"
		case "float64":
			return "GoFloat"
		case "EntityReaderWriter":
			return "GoAccessor"
		}
	case *ast.ArrayType:
		if x.Len == nil {
			if t := leanType(x.Elt); t != "" {
				return "List " + paren(t)
			}
		}
	case *ast.MapType:
		if leanType(x.Key) == "Str" && leanType(x.Value) == "Str" {
			return "List (Str × Str)"
		}
		if leanType(x.Key) == "Str" && src(x.Value) == "bool" {
			return "List Str" // a set: only `m[k] = true` and reads are translated
		}
	case *ast.SelectorExpr:
		if src(x) == "bytes.Buffer" {
			return "Str"
		}
	}
	return leanTypeExt(e)
}

func paren(t string) string {
	if strings.ContainsAny(t, " ×→") {
		return "(" + t + ")"
	}
	return t
}

func zero(t string) string {
	switch {
	case t == "Str":
		return "([] : Str)"
	case t == "Int":
		return "(0 : Int)"
	case t == "Bool":
		return "false"
	case t == "GoErr":
		return "(none : GoErr)"
	case t == "GoAccessor":
		return "(default : GoAccessor)"
	case t == "GoFloat":
		// the zero value of a float64 is the literal 0 (floats are opaque: literals are `float_lit` of their text)
		return "(" + ext("float.lit", "String → GoFloat") + " \"0\")"
	case strings.HasPrefix(t, "List "):
		return "([] : " + t + ")"
	case strings.HasPrefix(t, "Option "):
		return "(none : " + t + ")"
	}
	fail("no zero value for %s", t)
	return ""
}

// ---------------------------------------------------------------------------------------------
// one function

type scope struct {
	vars   map[string]bool
	names  map[string]string // Go name -> Lean name, when it had to be renamed
	types  map[string]ast.Expr
	parent *scope
}

func (s *scope) has(n string) bool {
	for c := s; c != nil; c = c.parent {
		if c.vars[n] {
			return true
		}
	}
	return false
}

type extra struct{ name, typ, text string }

type tr struct {
	key         string
	fd          *ast.FuncDecl
	recv        string            // receiver variable name ("" if none)
	structOf    map[string]string // variable (receiver / parameter) -> struct type name
	extras      []extra
	byText      map[string]int
	results     []string // Lean result types
	named       []string // names of named results
	buffers     map[string]bool
	recvStruct  string              // struct type of the receiver ("" if none)
	paramStruct map[string]ast.Expr // parameters (and the receiver) passed as structures -> declared type
	loops       []string            // labels of the enclosing loops ("" = unlabelled)
	tmp         int
	out         *bytes.Buffer
	sc          *scope
}

func (t *tr) fresh() string { t.tmp++; return fmt.Sprintf("t'%d", t.tmp) }

func (t *tr) line(ind int, format string, a ...interface{}) {
	t.out.WriteString(strings.Repeat("  ", ind))
	fmt.Fprintf(t.out, format, a...)
	t.out.WriteString("\n")
}

// lname: the Lean name of a Go local
func (t *tr) lname(n string) string {
	for c := t.sc; c != nil; c = c.parent {
		if c.vars[n] {
			if ln, ok := c.names[n]; ok {
				return ln
			}
			return mangle(n)
		}
	}
	return mangle(n)
}

// bindName declares n in the current scope; Lean does not allow a mutable variable to be shadowed, so a
// name that an enclosing scope of the function body already has gets a fresh Lean name
func (t *tr) bindName(n string) {
	shadow := false
	for c := t.sc.parent; c != nil && c.parent != nil; c = c.parent { // the outermost scope holds the parameters
		if c.vars[n] {
			shadow = true
		}
	}
	t.sc.vars[n] = true
	if shadow {
		t.tmp++
		if t.sc.names == nil {
			t.sc.names = map[string]string{}
		}
		t.sc.names[n] = fmt.Sprintf("%s'%d", mangle(n), t.tmp)
	}
}

func (t *tr) push() { t.sc = &scope{vars: map[string]bool{}, parent: t.sc} }
func (t *tr) pop()  { t.sc = t.sc.parent }

// selector chain rooted at a struct-typed receiver / parameter → extra parameter
func (t *tr) selectorLeaf(e *ast.SelectorExpr) (string, bool) {
	var chain []string
	var cur ast.Expr = e
	for {
		s, ok := cur.(*ast.SelectorExpr)
		if !ok {
			break
		}
		chain = append([]string{s.Sel.Name}, chain...)
		cur = s.X
	}
	root, ok := cur.(*ast.Ident)
	if !ok {
		return "", false
	}
	st, ok := t.structOf[root.Name]
	if !ok || t.sc.has(root.Name) && !t.isParam(root.Name) {
		return "", false
	}
	var ft ast.Expr
	for _, f := range chain {
		fields, ok := structFields[st]
		if !ok {
			fail("selector %s: %s is not a struct of the package", src(e), st)
		}
		ft, ok = fields[f]
		if !ok {
			fail("selector %s: no field %s in %s", src(e), f, st)
		}
		st = ""
		switch x := ft.(type) {
		case *ast.Ident:
			st = x.Name
		case *ast.StarExpr:
			if id, ok := x.X.(*ast.Ident); ok {
				st = id.Name
			}
		}
	}
	lt := leanType(ft)
	if lt == "" {
		fail("selector %s has type %s outside the subset", src(e), src(ft))
	}
	text := src(e)
	if i, ok := t.byText[text]; ok {
		return t.extras[i].name, true
	}
	name := mangle(strings.ReplaceAll(text, ".", "_"))
	t.byText[text] = len(t.extras)
	t.extras = append(t.extras, extra{name, lt, text})
	return name, true
}

func (t *tr) isParam(n string) bool { _, ok := t.structOf[n]; return ok }

func ext(name, typ string) string {
	f := strings.ReplaceAll(name, ".", "_")
	extUsed[f] = typ
	return "X." + f
}

var strLit = func(s string) string { return "(" + strconv.Quote(s) + ".toList : Str)" }

func litString(e ast.Expr) (string, bool) {
	if b, ok := e.(*ast.BasicLit); ok && b.Kind == token.STRING {
		s, err := strconv.Unquote(b.Value)
		if err == nil {
			return s, true
		}
	}
	if id, ok := e.(*ast.Ident); ok {
		if c, ok := constVals[id.Name]; ok {
			return litString(c)
		}
	}
	return "", false
}

func oneChar(e ast.Expr) (string, bool) {
	s, ok := litString(e)
	if !ok || len(s) != 1 || s[0] >= 0x80 || s[0] == '\'' || s[0] == '\\' || s[0] < 0x20 {
		return "", false
	}
	return "'" + s + "'", true
}

// expr translates an expression; mon reports whether the text contains a nested action `(← …)`
func (t *tr) expr(e ast.Expr) (string, bool) {
	switch x := e.(type) {
	case *ast.ParenExpr:
		s, m := t.expr(x.X)
		return "(" + s + ")", m
	case *ast.BasicLit:
		switch x.Kind {
		case token.INT:
			return "(" + x.Value + " : Int)", false
		case token.FLOAT:
			return "(" + ext("float.lit", "String → GoFloat") + " " + strconv.Quote(x.Value) + ")", false
		case token.STRING:
			s, err := strconv.Unquote(x.Value)
			if err != nil {
				fail("string literal %s", x.Value)
			}
			for i := 0; i < len(s); i++ {
				if s[i] >= 0x80 {
					fail("non-ASCII string literal %s", x.Value)
				}
			}
			return strLit(s), false
		}
		fail("literal %s", x.Value)
	case *ast.Ident:
		switch x.Name {
		case "true", "false":
			return x.Name, false
		case "nil":
			fail("bare nil")
		}
		if t.sc.has(x.Name) {
			return t.lname(x.Name), false
		}
		if _, ok := t.paramStruct[x.Name]; ok {
			return mangle(x.Name), false
		}
		if c, ok := constVals[x.Name]; ok {
			return t.expr(c)
		}
		if v, ok := pkgVars[x.Name]; ok {
			lt := ""
			if v != nil {
				lt = leanType(v)
				if lt == "" {
					if id, ok := v.(*ast.Ident); ok && (id.Name == "true" || id.Name == "false") {
						lt = "Bool"
					}
				}
			}
			if lt == "" {
				fail("package variable %s has no type in the subset", x.Name)
			}
			return ext(x.Name, lt), false
		}
		fail("unknown identifier %s", x.Name)
	case *ast.SelectorExpr:
		if v, ok := extConsts[src(x)]; ok {
			return v, false
		}
		if n, ok := t.selectorLeaf(x); ok {
			return n, false
		}
		if s, m, ok := t.typedSelector(x); ok {
			return s, m
		}
		fail("selector %s", src(x))
	case *ast.StarExpr:
		a, _ := t.expr(x.X)
		return "(← deref " + a + ")", true
	case *ast.UnaryExpr:
		s, m := t.expr(x.X)
		switch x.Op {
		case token.NOT:
			return "(!" + s + ")", m
		case token.SUB:
			return "(-" + s + ")", m
		case token.AND:
			return "(some " + s + ")", m
		}
		fail("unary %s", x.Op)
	case *ast.BinaryExpr:
		if isNil(x.Y) && (x.Op == token.EQL || x.Op == token.NEQ) {
			a, ma := t.expr(x.X)
			if id, ok := t.typeOf(x.X).(*ast.Ident); ok && id.Name == "regexpMatch" {
				// the result of FindStringSubmatch: nil = no match = the empty list
				if x.Op == token.EQL {
					return "(" + a + ").isEmpty", ma
				}
				return "(!(" + a + ").isEmpty)", ma
			}
			if _, isSlice := resolve(t.typeOf(x.X)).(*ast.ArrayType); isSlice {
				fail("nil test of a slice: %s", src(x))
			}
			if x.Op == token.EQL {
				return "(" + a + ").isNone", ma
			}
			return "(" + a + ").isSome", ma
		}
		a, ma := t.expr(x.X)
		b, mb := t.expr(x.Y)
		switch x.Op {
		case token.LAND:
			if mb {
				return "(← (if " + a + " then (do pure " + b + ") else pure false))", true
			}
			return "(" + a + " && " + b + ")", ma
		case token.LOR:
			if mb {
				return "(← (if " + a + " then pure true else (do pure " + b + ")))", true
			}
			return "(" + a + " || " + b + ")", ma
		case token.EQL:
			return "(" + a + " == " + b + ")", ma || mb
		case token.NEQ:
			return "(" + a + " != " + b + ")", ma || mb
		case token.LSS, token.LEQ, token.GTR, token.GEQ:
			if id, ok := resolve(t.typeOf(x.X)).(*ast.Ident); ok && id.Name == "float64" {
				// float64 comparisons are uninterpreted (NaN makes them no order)
				op := map[token.Token]string{token.LSS: "float.lt", token.LEQ: "float.le", token.GTR: "float.gt", token.GEQ: "float.ge"}[x.Op]
				return "(" + ext(op, "GoFloat → GoFloat → Bool") + " " + a + " " + b + ")", ma || mb
			}
			switch x.Op {
			case token.LEQ:
				return "decide (" + a + " ≤ " + b + ")", ma || mb
			case token.GTR:
				return "decide (" + a + " > " + b + ")", ma || mb
			case token.GEQ:
				return "decide (" + a + " ≥ " + b + ")", ma || mb
			}
			return "decide (" + a + " < " + b + ")", ma || mb
		case token.ADD:
			return "(" + a + " + " + b + ")", ma || mb
		case token.SUB:
			return "(" + a + " - " + b + ")", ma || mb
		case token.MUL:
			return "(" + a + " * " + b + ")", ma || mb
		}
		fail("binary %s", x.Op)
	case *ast.IndexExpr:
		if mt, ok := resolve(t.typeOf(x.X)).(*ast.MapType); ok {
			if src(mt.Value) == "bool" {
				a, m1 := t.expr(x.X)
				k, m2 := t.expr(x.Index)
				return "(List.contains " + a + " " + k + ")", m1 || m2
			}
			fail("read of the map %s", src(x.X))
		}
		a, _ := t.expr(x.X)
		i, _ := t.expr(x.Index)
		return "(← at? " + a + " " + i + ")", true
	case *ast.SliceExpr:
		if x.Slice3 {
			fail("3-index slice")
		}
		a, _ := t.expr(x.X)
		switch {
		case x.Low != nil && x.High != nil:
			l, _ := t.expr(x.Low)
			h, _ := t.expr(x.High)
			return "(← slice " + a + " " + l + " " + h + ")", true
		case x.Low != nil:
			l, _ := t.expr(x.Low)
			return "(← sliceFrom " + a + " " + l + ")", true
		case x.High != nil:
			h, _ := t.expr(x.High)
			return "(← sliceTo " + a + " " + h + ")", true
		}
		return a, false
	case *ast.CompositeLit:
		return t.composite(x)
	case *ast.CallExpr:
		return t.call(x)
	}
	fail("expression %T %s", e, src(e))
	return "", false
}

func a2(t *tr, e ast.Expr) string { s, _ := t.expr(e); return s }

func isNil(e ast.Expr) bool { id, ok := e.(*ast.Ident); return ok && id.Name == "nil" }

func (t *tr) args(es []ast.Expr) ([]string, bool) {
	var out []string
	mon := false
	for _, a := range es {
		s, m := t.expr(a)
		out = append(out, s)
		mon = mon || m
	}
	return out, mon
}

func (t *tr) call(c *ast.CallExpr) (string, bool) {
	if s, m, ok := t.typedCall(c); ok {
		return s, m
	}
	name := ""
	switch f := c.Fun.(type) {
	case *ast.Ident:
		name = f.Name
	case *ast.SelectorExpr:
		if id, ok := f.X.(*ast.Ident); ok {
			if id.Name == t.recv && t.recv != "" {
				// method of the receiver's type
				name = recvName(t.fd) + "." + f.Sel.Name
			} else if t.buffers[id.Name] && f.Sel.Name == "String" && len(c.Args) == 0 {
				return t.lname(id.Name), false
			} else {
				name = id.Name + "." + f.Sel.Name
			}
		}
	}
	if name == "" {
		fail("call %s", src(c))
	}
	if name == "strings.TrimFunc" {
		if id, ok := c.Args[1].(*ast.Ident); ok && id.Name == "stringTrimSpaceCutset" && len(c.Args) == 2 {
			// the cutset function is tied separately (gotrans: `stringTrimSpaceCutset` is `r == ' '`)
			a, m := t.expr(c.Args[0])
			return "(Str.trim ' ' " + a + ")", m
		}
		fail("strings.TrimFunc with %s", src(c.Args[1]))
	}
	if name == "make" {
		lt := leanType(c.Args[0])
		if lt == "" || !(strings.HasPrefix(lt, "List ")) {
			fail("make of %s", src(c.Args[0]))
		}
		if len(c.Args) >= 2 {
			if b, ok := c.Args[1].(*ast.BasicLit); !ok || b.Value != "0" {
				fail("make with a length other than 0: %s", src(c))
			}
		}
		return zero(lt), false
	}
	if name == "fmt.Sprintf" {
		// a format made of literal text and %s verbs only is a concatenation
		f, ok := litString(c.Args[0])
		if !ok || strings.Count(f, "%") != strings.Count(f, "%s") || strings.Count(f, "%s") != len(c.Args)-1 {
			fail("fmt.Sprintf form %s", src(c))
		}
		parts := strings.Split(f, "%s")
		var out []string
		mon := false
		for i, lit := range parts {
			if lit != "" {
				out = append(out, strLit(lit))
			}
			if i < len(parts)-1 {
				a, m := t.expr(c.Args[i+1])
				out = append(out, a)
				mon = mon || m
			}
		}
		if len(out) == 0 {
			return strLit(""), false
		}
		return "(" + strings.Join(out, " ++ ") + ")", mon
	}
	a, mon := t.args(c.Args)
	switch name {
	case "len":
		return "(len " + a[0] + ")", mon
	case "append":
		if len(a) == 2 && !c.Ellipsis.IsValid() {
			return "(push " + a[0] + " " + a[1] + ")", mon
		}
		if len(a) == 2 && c.Ellipsis.IsValid() {
			return "(" + a[0] + " ++ " + a[1] + ")", mon
		}
		fail("append form %s", src(c))
	case "errors.New":
		return "(some { message := " + a[0] + " } : GoErr)", mon
	case "NewError":
		return "(some { code := " + a[0] + ", message := " + a[1] + ", header := [] } : GoErr)", mon
	case "NewErrorWithHeader":
		return "(some { code := " + a[0] + ", message := " + a[1] + ", header := " + a[2] + " } : GoErr)", mon
	case "strings.HasPrefix":
		return "(Str.hasPrefix " + a[1] + " " + a[0] + ")", mon
	case "strings.HasSuffix":
		return "(Str.hasSuffix " + a[1] + " " + a[0] + ")", mon
	case "strings.Index":
		return "(index " + a[0] + " " + a[1] + ")", mon
	case "strings.Contains":
		return "(Str.containsSub " + a[1] + " " + a[0] + ")", mon
	case "strings.Split", "strings.Trim", "strings.TrimLeft", "strings.TrimRight":
		ch, ok := oneChar(c.Args[1])
		if !ok {
			fail("%s with a separator / cutset that is not one ASCII character: %s", name, src(c))
		}
		fn := map[string]string{"strings.Split": "Str.split", "strings.Trim": "Str.trim", "strings.TrimLeft": "Str.trimLeft", "strings.TrimRight": "Str.trimRight"}[name]
		return "(" + fn + " " + ch + " " + a[0] + ")", mon
	case "strings.Join":
		return "(Str.join " + a[1] + " " + a[0] + ")", mon
	}
	if isTarget[name] {
		return "(← " + leanName(name) + " X " + strings.Join(parenAll(a), " ") + ")", true
	}
	if ty, ok := externs[name]; ok && ty != "" {
		return "(" + ext(name, ty) + " " + strings.Join(parenAll(a), " ") + ")", mon
	}
	// an un-listed package-level function (no receiver) of the package: asked for as a further target,
	// translated on demand and emitted before its caller (main); this attempt fails, main retries
	if id, ok := c.Fun.(*ast.Ident); ok {
		if fd := funcs[id.Name]; fd != nil && fd.Recv == nil && !onDemandTried[id.Name] {
			wanted = append(wanted, [2]string{id.Name, t.key})
		}
	}
	fail("call of %s", name)
	return "", false
}

// on-demand targets: (callee, caller) pairs met in the last pass; callees already tried
var wanted [][2]string
var onDemandTried = map[string]bool{}

// why an on-demand callee was dropped again (reported on stdout and in the caller's NOT TRANSLATED comment)
var onDemandWhy = map[string]string{}

// addOnDemand inserts every wanted callee before its caller in `targets`; false when nothing was added
func addOnDemand() bool {
	added := false
	for _, w := range wanted {
		callee, caller := w[0], w[1]
		if onDemandTried[callee] || isTarget[callee] {
			continue
		}
		onDemandTried[callee] = true
		for i, k := range targets {
			if k == caller {
				targets = append(targets[:i], append([]string{callee}, targets[i:]...)...)
				added = true
				break
			}
		}
	}
	wanted = nil
	return added
}

func parenAll(a []string) []string { return a }

// ---------------------------------------------------------------------------------------------
// statements

func assigned(body ast.Node, name string) bool {
	found := false
	ast.Inspect(body, func(n ast.Node) bool {
		switch s := n.(type) {
		case *ast.AssignStmt:
			if s.Tok != token.DEFINE {
				for _, l := range s.Lhs {
					if id, ok := l.(*ast.Ident); ok && id.Name == name {
						found = true
					}
				}
			}
		case *ast.IncDecStmt:
			if id, ok := s.X.(*ast.Ident); ok && id.Name == name {
				found = true
			}
		}
		return true
	})
	return found
}

func isTraceBlock(s *ast.IfStmt) bool {
	id, ok := s.Cond.(*ast.Ident)
	if !ok || id.Name != "trace" || s.Init != nil || s.Else != nil {
		return false
	}
	for _, st := range s.Body.List {
		es, ok := st.(*ast.ExprStmt)
		if !ok {
			return false
		}
		c, ok := es.X.(*ast.CallExpr)
		if !ok {
			return false
		}
		sel, ok := c.Fun.(*ast.SelectorExpr)
		if !ok {
			return false
		}
		if r, ok := sel.X.(*ast.Ident); !ok || r.Name != "traceLogger" {
			return false
		}
	}
	return true
}

func (t *tr) declare(ind int, name, val string, monadic bool) {
	if name == "_" {
		return
	}
	t.bindName(name)
	_ = monadic
	t.line(ind, "let mut %s := %s", t.lname(name), val)
}

func (t *tr) assign(ind int, lhs ast.Expr, val string) {
	switch l := lhs.(type) {
	case *ast.Ident:
		if l.Name == "_" {
			return
		}
		if !t.sc.has(l.Name) {
			fail("assignment to %s which is not a local", l.Name)
		}
		t.line(ind, "%s := %s", t.lname(l.Name), val)
	case *ast.IndexExpr:
		m, ok := l.X.(*ast.Ident)
		if !ok || !t.sc.has(m.Name) {
			fail("indexed assignment %s", src(lhs))
		}
		k, _ := t.expr(l.Index)
		if mt, ok := resolve(t.varType(m.Name)).(*ast.MapType); ok && src(mt.Value) == "bool" {
			if val != "true" {
				fail("a map[string]bool is translated as a set: only `m[k] = true` is allowed, not %s", val)
			}
			t.line(ind, "%s := setAdd %s %s", t.lname(m.Name), t.lname(m.Name), k)
			return
		}
		t.line(ind, "%s := mapSet %s %s %s", t.lname(m.Name), t.lname(m.Name), k, val)
	default:
		fail("assignment to %s", src(lhs))
	}
}

func (t *tr) stmts(ind int, list []ast.Stmt) {
	for i, s := range list {
		// xs = xs[:0]: the in-place filter idiom (typed.go)
		if as, ok := s.(*ast.AssignStmt); ok && as.Tok == token.ASSIGN && len(as.Lhs) == 1 && len(as.Rhs) == 1 {
			if sl, ok := as.Rhs[0].(*ast.SliceExpr); ok && sl.Low == nil && sl.High != nil && src(sl.High) == "0" && src(sl.X) == src(as.Lhs[0]) {
				xs := src(as.Lhs[0])
				alias := ""
				if i > 0 {
					if prev, ok := list[i-1].(*ast.AssignStmt); ok && len(prev.Lhs) == 1 && len(prev.Rhs) == 1 && src(prev.Rhs[0]) == xs {
						alias = src(prev.Lhs[0])
					}
				}
				if why := inPlaceFilterOK(list[i+1:], xs, alias); why != "" {
					fail("%s shares its backing array with a live slice: %s", src(as), why)
				}
				lt := leanType(t.typeOf(as.Lhs[0]))
				if lt == "" {
					fail("type of %s", xs)
				}
				t.assign(ind, as.Lhs[0], zero(lt))
				continue
			}
		}
		t.stmt(ind, s)
	}
}

func (t *tr) block(ind int, b *ast.BlockStmt) {
	t.push()
	n := t.out.Len()
	t.stmts(ind, b.List)
	if t.out.Len() == n {
		t.line(ind, "pure ()")
	}
	t.pop()
}

func (t *tr) stmt(ind int, s ast.Stmt) {
	switch x := s.(type) {
	case *ast.DeclStmt:
		gd, ok := x.Decl.(*ast.GenDecl)
		if !ok || gd.Tok != token.VAR {
			fail("declaration %s", src(x))
		}
		for _, sp := range gd.Specs {
			vs := sp.(*ast.ValueSpec)
			if len(vs.Values) != 0 {
				fail("var with initialiser %s", src(x))
			}
			lt := leanType(vs.Type)
			if lt == "" {
				fail("var of type %s", src(vs.Type))
			}
			for _, n := range vs.Names {
				if src(vs.Type) == "bytes.Buffer" {
					t.buffers[n.Name] = true
				}
				t.declare(ind, n.Name, zero(lt), false)
				t.setType(n.Name, vs.Type)
			}
		}
	case *ast.AssignStmt:
		t.assignStmt(ind, x)
	case *ast.IncDecStmt:
		v, _ := t.expr(x.X)
		op := "+"
		if x.Tok == token.DEC {
			op = "-"
		}
		t.assign(ind, x.X, fmt.Sprintf("%s %s (1 : Int)", v, op))
	case *ast.DeferStmt:
		if isLockCall(x.Call) {
			return
		}
		fail("defer %s", src(x.Call))
	case *ast.ExprStmt:
		if c, ok := x.X.(*ast.CallExpr); ok {
			switch src(c.Fun) {
			case "log.Printf", "log.Print", "log.Println":
				// log output is not part of what a call computes
				return
			case "os.Exit":
				// the process ends: no result, like a panic
				t.line(ind, "failure")
				return
			}
		}
		if c, ok := x.X.(*ast.CallExpr); ok && isLockCall(c) {
			// Lock / Unlock of a mutex field: no effect on what a single call computes; that every access
			// holds its lock is the subject of the generated facts of C12
			return
		}
		if c, ok := x.X.(*ast.CallExpr); ok && t.effectStmt(ind, c) {
			return
		}
		// buffer.WriteString(e)
		if c, ok := x.X.(*ast.CallExpr); ok {
			if sel, ok := c.Fun.(*ast.SelectorExpr); ok {
				if id, ok := sel.X.(*ast.Ident); ok && t.buffers[id.Name] && sel.Sel.Name == "WriteString" && len(c.Args) == 1 {
					a, _ := t.expr(c.Args[0])
					t.line(ind, "%s := %s ++ %s", t.lname(id.Name), t.lname(id.Name), a)
					return
				}
			}
		}
		if c, ok := x.X.(*ast.CallExpr); ok {
			if sel, ok := c.Fun.(*ast.SelectorExpr); ok {
				// s.add(x) with `func (s *T) add(x) { *s = append(*s, x) }`
				if id, ok := sel.X.(*ast.Ident); ok && t.sc.has(id.Name) && len(c.Args) == 1 {
					if tn, ok := t.varType(id.Name).(*ast.Ident); ok && methodAppend[tn.Name+"."+sel.Sel.Name] {
						a, _ := t.expr(c.Args[0])
						t.line(ind, "%s := push %s %s", t.lname(id.Name), t.lname(id.Name), a)
						return
					}
				}
				if src(sel) == "sort.Sort" && len(c.Args) == 1 {
					if rc, ok := c.Args[0].(*ast.CallExpr); ok && src(rc.Fun) == "sort.Reverse" && len(rc.Args) == 1 {
						if id, ok := rc.Args[0].(*ast.Ident); ok && t.sc.has(id.Name) {
							if st, ptr := structName(t.varType(id.Name)); st != "" && !ptr {
								lt := leanType(t.varType(id.Name))
								t.line(ind, "%s := %s %s", t.lname(id.Name), ext("sort.SortReverse_"+st, lt+" → "+lt), t.lname(id.Name))
								return
							}
						}
					}
				}
				// sort.Sort(xs) / sort.Stable(xs) on a local of a named slice type: an uninterpreted function of
				// Ext.  Both get the SAME field: whatever the ties assume of `sort.Sort` (they instantiate it with
				// the model's stable insertion sort, or assume "a sorted permutation") is also true of `sort.Stable`.
				if (src(sel) == "sort.Sort" || src(sel) == "sort.Stable") && len(c.Args) == 1 {
					if id, ok := c.Args[0].(*ast.Ident); ok && t.sc.has(id.Name) {
						if tn, ok := t.varType(id.Name).(*ast.Ident); ok {
							lt := leanType(tn)
							if lt != "" {
								t.line(ind, "%s := %s %s", t.lname(id.Name), ext("sort.Sort_"+tn.Name, lt+" → "+lt), t.lname(id.Name))
								return
							}
						}
					}
				}
			}
		}
		fail("expression statement %s", src(x))
	case *ast.IfStmt:
		if isTraceBlock(x) {
			return
		}
		t.ifStmt(ind, x)
	case *ast.ForStmt:
		t.forStmt(ind, x)
	case *ast.RangeStmt:
		t.rangeStmt(ind, x)
	case *ast.LabeledStmt:
		switch l := x.Stmt.(type) {
		case *ast.RangeStmt:
			t.rangeStmtL(ind, l, x.Label.Name)
		default:
			fail("label on %T", x.Stmt)
		}
	case *ast.BranchStmt:
		if x.Label != nil {
			// `continue L` from a loop nested directly in the loop labelled L: leave the inner loop
			// with the flag set; the statement after the inner loop continues L
			n := len(t.loops)
			if x.Tok == token.CONTINUE && n >= 2 && t.loops[n-2] == x.Label.Name {
				t.line(ind, "cont'%s := true", x.Label.Name)
				t.line(ind, "break")
				return
			}
			fail("labelled %s", x.Tok)
		}
		switch x.Tok {
		case token.BREAK:
			t.line(ind, "break")
		case token.CONTINUE:
			t.line(ind, "continue")
		default:
			fail("%s", x.Tok)
		}
	case *ast.ReturnStmt:
		if len(x.Results) == 0 && len(t.named) == 0 && len(mutates[t.key]) > 0 {
			t.line(ind, "return %s", tuple(t.mutNames()))
			return
		}

		if len(x.Results) == 0 {
			if len(t.named) == 0 {
				fail("bare return without named results")
			}
			var ns []string
			for _, n := range t.named {
				ns = append(ns, t.lname(n))
			}
			t.line(ind, "return %s", tuple(ns))
			return
		}
		if len(x.Results) == 1 && len(t.results)-len(mutates[t.key]) > 1 {
			// return f(…) of a function with as many results
			c, ok := x.Results[0].(*ast.CallExpr)
			isExt := false
			if ok {
				if sel, isSel := c.Fun.(*ast.SelectorExpr); isSel {
					if id, isId := sel.X.(*ast.Ident); isId {
						_, isExt = externs[id.Name+"."+sel.Sel.Name]
					}
				}
			}
			if !ok || (!isExt && len(t.resultTypes(c)) != len(t.results)) {
				fail("return of %s", src(x.Results[0]))
			}
			v, _ := t.call(c)
			t.line(ind, "return %s", v)
			return
		}
		if len(x.Results)+len(mutates[t.key]) != len(t.results) {
			fail("return of a call with several results")
		}
		var vs []string
		for i, r := range x.Results {
			if isNil(r) {
				vs = append(vs, zero(t.results[i]))
				continue
			}
			v, _ := t.expr(r)
			vs = append(vs, v)
		}
		vs = append(vs, t.mutNames()...)
		t.line(ind, "return %s", tuple(vs))
	case *ast.SwitchStmt:
		t.switchStmt(ind, x)
	case *ast.BlockStmt:
		t.line(ind, "do")
		t.block(ind+1, x)
	default:
		fail("statement %T", s)
	}
}

func (t *tr) mutNames() []string {
	var ns []string
	for _, m := range mutates[t.key] {
		if t.sc.has(m) {
			ns = append(ns, t.lname(m))
		} else {
			ns = append(ns, mangle(m))
		}
	}
	return ns
}

// isLockCall: x.f.Lock() / RLock() / Unlock() / RUnlock() on a field whose declared type is a sync mutex
func isLockCall(c *ast.CallExpr) bool {
	sel, ok := c.Fun.(*ast.SelectorExpr)
	if !ok || len(c.Args) != 0 {
		return false
	}
	switch sel.Sel.Name {
	case "Lock", "RLock", "Unlock", "RUnlock":
	default:
		return false
	}
	f, ok := sel.X.(*ast.SelectorExpr)
	if !ok {
		return false
	}
	for _, fields := range structFields {
		if ty, ok := fields[f.Sel.Name]; ok {
			if s := src(ty); s == "sync.RWMutex" || s == "sync.Mutex" {
				return true
			}
		}
	}
	return false
}

// switchStmt: `switch [init;] [tag] { case e1, e2: … default: … }` without fallthrough and without a `break`
// that leaves the switch is the chain `if tag == e1 || tag == e2 then … else if … else …`; the tag (if any)
// is evaluated once
func (t *tr) switchStmt(ind int, x *ast.SwitchStmt) {
	bad := false
	var scan func(n ast.Node) bool
	scan = func(n ast.Node) bool {
		switch b := n.(type) {
		case *ast.ForStmt, *ast.RangeStmt, *ast.SwitchStmt, *ast.FuncLit:
			if n != ast.Node(x) {
				return false
			}
		case *ast.BranchStmt:
			if b.Tok == token.BREAK || b.Tok == token.FALLTHROUGH {
				bad = true
			}
		}
		return true
	}
	ast.Inspect(x.Body, scan)
	if bad {
		fail("switch with break or fallthrough")
	}
	t.line(ind, "do")
	ind++
	t.push()
	defer t.pop()
	if x.Init != nil {
		t.stmt(ind, x.Init)
	}
	tag := ""
	if x.Tag != nil {
		v, _ := t.expr(x.Tag)
		tag = t.fresh()
		t.line(ind, "let %s := %s", tag, v)
	}
	var deflt *ast.CaseClause
	first := true
	depth := 0
	for _, c := range x.Body.List {
		cc := c.(*ast.CaseClause)
		if cc.List == nil {
			deflt = cc
			continue
		}
		var conds []string
		for _, e := range cc.List {
			v, _ := t.expr(e)
			if tag != "" {
				v = "(" + tag + " == " + v + ")"
			}
			conds = append(conds, v)
		}
		cond := strings.Join(conds, " || ")
		if !first {
			t.line(ind+depth, "else")
			depth++
		}
		first = false
		t.line(ind+depth, "if %s then", cond)
		t.block(ind+depth+1, &ast.BlockStmt{List: cc.Body})
	}
	if deflt != nil {
		if first {
			t.block(ind, &ast.BlockStmt{List: deflt.Body})
		} else {
			t.line(ind+depth, "else")
			t.block(ind+depth+1, &ast.BlockStmt{List: deflt.Body})
		}
	}
}

func tuple(vs []string) string {
	if len(vs) == 1 {
		return vs[0]
	}
	return "(" + strings.Join(vs, ", ") + ")"
}

func (t *tr) assignStmt(ind int, x *ast.AssignStmt) {
	switch x.Tok {
	case token.ADD_ASSIGN, token.SUB_ASSIGN, token.MUL_ASSIGN:
		if len(x.Lhs) != 1 {
			fail("assignment %s", src(x))
		}
		l, _ := t.expr(x.Lhs[0])
		r, _ := t.expr(x.Rhs[0])
		op := map[token.Token]string{token.ADD_ASSIGN: "+", token.SUB_ASSIGN: "-", token.MUL_ASSIGN: "*"}[x.Tok]
		t.assign(ind, x.Lhs[0], fmt.Sprintf("%s %s %s", l, op, r))
		return
	case token.ASSIGN, token.DEFINE:
	default:
		fail("assignment operator %s", x.Tok)
	}
	var rtypes []ast.Expr
	if len(x.Lhs) == len(x.Rhs) {
		for _, r := range x.Rhs {
			rtypes = append(rtypes, t.typeOf(r))
		}
	} else if c, ok := x.Rhs[0].(*ast.CallExpr); ok {
		rtypes = t.resultTypes(c)
	}
	pos := 0
	bind := func(l ast.Expr, val string) {
		var ty ast.Expr
		if pos < len(rtypes) {
			ty = rtypes[pos]
		}
		pos++
		if id, ok := l.(*ast.Ident); ok && x.Tok == token.DEFINE && !t.sc.vars[id.Name] {
			t.declare(ind, id.Name, val, false)
			t.setType(id.Name, ty)
			return
		}
		t.assign(ind, l, val)
	}
	if len(x.Rhs) == 1 {
		if c, ok := x.Rhs[0].(*ast.CallExpr); ok {
			if res, ok := t.mutCall(ind, c); ok {
				if len(res) != len(x.Lhs) {
					fail("assignment %s", src(x))
				}
				for i, l := range x.Lhs {
					// a field of a struct parameter on the left: c.F = …
					if sel, isSel := l.(*ast.SelectorExpr); isSel {
						if id, isId := sel.X.(*ast.Ident); isId {
							if pt, isP := t.paramStruct[id.Name]; isP {
								if st, ptr := structName(pt); st != "" && isGenStruct[st] {
									t.changed(id.Name)
									useField(st, sel.Sel.Name)
									if ptr {
										t.line(ind, "%s := some { (← deref %s) with %s := %s }", mangle(id.Name), mangle(id.Name), mangle(sel.Sel.Name), res[i])
									} else {
										t.line(ind, "%s := { %s with %s := %s }", mangle(id.Name), mangle(id.Name), mangle(sel.Sel.Name), res[i])
									}
									continue
								}
							}
						}
					}
					bind(l, res[i])
				}
				return
			}
		}
	}
	if len(x.Lhs) == len(x.Rhs) {
		if len(x.Lhs) == 1 {
			if x.Tok == token.DEFINE {
				if cl, ok := x.Rhs[0].(*ast.CompositeLit); ok && src(cl.Type) == "bytes.Buffer" {
					t.buffers[x.Lhs[0].(*ast.Ident).Name] = true
				}
				// x := &T{…}: the pointer never leaves the function (checked), the struct is kept as a value
				if u, ok := x.Rhs[0].(*ast.UnaryExpr); ok && u.Op == token.AND {
					if cl, ok := u.X.(*ast.CompositeLit); ok {
						if st, _ := structName(cl.Type); st != "" && isGenStruct[st] {
							id := x.Lhs[0].(*ast.Ident)
							t.noEscape(id.Name)
							v, _ := t.structLit(cl, st, true)
							t.declare(ind, id.Name, v, false)
							t.setType(id.Name, cl.Type)
							return
						}
					}
				}
			}
			// x.f = e on a struct parameter (a pointer parameter must be listed in `mutates`)
			if sel, ok := x.Lhs[0].(*ast.SelectorExpr); ok && x.Tok == token.ASSIGN {
				if id, ok := sel.X.(*ast.Ident); ok {
					if pt, isP := t.paramStruct[id.Name]; isP {
						if st, _ := structName(pt); st != "" && isGenStruct[st] {
							t.changed(id.Name)
							useField(st, sel.Sel.Name)
							v, _ := t.expr(x.Rhs[0])
							if _, ptr := structName(pt); ptr {
								t.line(ind, "%s := some { (← deref %s) with %s := %s }", mangle(id.Name), mangle(id.Name), mangle(sel.Sel.Name), v)
							} else {
								t.line(ind, "%s := { %s with %s := %s }", mangle(id.Name), mangle(id.Name), mangle(sel.Sel.Name), v)
							}
							return
						}
					}
				}
			}
			// x.f = e on a struct kept as a value
			if sel, ok := x.Lhs[0].(*ast.SelectorExpr); ok && x.Tok == token.ASSIGN {
				if id, ok := sel.X.(*ast.Ident); ok && t.sc.has(id.Name) {
					if st, ptr := structName(t.varType(id.Name)); st != "" && !ptr && isGenStruct[st] {
						useField(st, sel.Sel.Name)
						v, _ := t.expr(x.Rhs[0])
						t.line(ind, "%s := { %s with %s := %s }", t.lname(id.Name), t.lname(id.Name), mangle(sel.Sel.Name), v)
						return
					}
				}
			}
			v, _ := t.expr(x.Rhs[0])
			bind(x.Lhs[0], v)
			return
		}
		// parallel assignment: right-hand sides first
		var tmps []string
		for _, r := range x.Rhs {
			v, _ := t.expr(r)
			n := t.fresh()
			t.line(ind, "let %s := %s", n, v)
			tmps = append(tmps, n)
		}
		for i, l := range x.Lhs {
			bind(l, tmps[i])
		}
		return
	}
	if len(x.Rhs) == 1 {
		c, ok := x.Rhs[0].(*ast.CallExpr)
		if !ok {
			fail("assignment %s", src(x))
		}
		v, mon := t.call(c)
		var tmps []string
		for range x.Lhs {
			tmps = append(tmps, t.fresh())
		}
		// a call of a target is `(← F …)`: bind its result with ←
		if mon && strings.HasPrefix(v, "(← ") && strings.Count(v, "←") == 1 {
			t.line(ind, "let %s ← %s", tuple(tmps), strings.TrimSuffix(strings.TrimPrefix(v, "(← "), ")"))
		} else {
			t.line(ind, "let %s := %s", tuple(tmps), v)
		}
		for i, l := range x.Lhs {
			bind(l, tmps[i])
		}
		return
	}
	fail("assignment %s", src(x))
}

func (t *tr) ifStmt(ind int, x *ast.IfStmt) {
	if x.Init != nil {
		t.line(ind, "do")
		ind++
		t.push()
		defer t.pop()
		t.stmt(ind, x.Init)
	}
	c, _ := t.expr(x.Cond)
	t.line(ind, "if %s then", c)
	t.block(ind+1, x.Body)
	switch e := x.Else.(type) {
	case nil:
	case *ast.BlockStmt:
		t.line(ind, "else")
		t.block(ind+1, e)
	case *ast.IfStmt:
		t.line(ind, "else")
		t.push()
		t.ifStmt(ind+1, e)
		t.pop()
	default:
		fail("else %T", e)
	}
}

func (t *tr) rangeStmt(ind int, x *ast.RangeStmt) { t.rangeStmtL(ind, x, "") }

// afterInner: behind a loop nested directly in a labelled loop, a set flag continues the labelled loop
func (t *tr) afterInner(ind int) {
	if n := len(t.loops); n >= 1 && t.loops[n-1] != "" {
		t.line(ind, "if cont'%s then", t.loops[n-1])
		t.line(ind+1, "continue")
	}
}

// mapMergeLoop: `for k, v := range m2 { m1[k] = v }` over two map[string]string.  Go iterates a map in
// random order, but this loop's result AS A MAP does not depend on the order (every key of m2 ends with
// m2's value); it is translated as `mapMerge m1 m2` (m2's entries written into m1 in the order in which
// m2 was written).  Every other loop over a map is rejected.
func (t *tr) mapMergeLoop(ind int, x *ast.RangeStmt) bool {
	if _, isMap := resolve(t.typeOf(x.X)).(*ast.MapType); !isMap {
		return false
	}
	k, ok1 := x.Key.(*ast.Ident)
	v, ok2 := x.Value.(*ast.Ident)
	if !ok1 || !ok2 || len(x.Body.List) != 1 {
		fail("loop over a map: %s", src(x.X))
	}
	as, ok := x.Body.List[0].(*ast.AssignStmt)
	if !ok || as.Tok != token.ASSIGN || len(as.Lhs) != 1 || len(as.Rhs) != 1 || src(as.Rhs[0]) != v.Name {
		fail("loop over a map: %s", src(x.X))
	}
	ix, ok := as.Lhs[0].(*ast.IndexExpr)
	if !ok || src(ix.Index) != k.Name {
		fail("loop over a map: %s", src(x.X))
	}
	m1, ok := ix.X.(*ast.Ident)
	if !ok || !t.sc.has(m1.Name) || m1.Name == src(x.X) {
		fail("loop over a map: %s", src(x.X))
	}
	m2, _ := t.expr(x.X)
	t.line(ind, "%s := mapMerge %s %s", t.lname(m1.Name), t.lname(m1.Name), m2)
	return true
}

func (t *tr) rangeStmtL(ind int, x *ast.RangeStmt, label string) {
	if label == "" && t.mapMergeLoop(ind, x) {
		return
	}
	defer t.afterInner(ind)
	if x.Tok != token.DEFINE && (x.Key != nil || x.Value != nil) {
		fail("range with assignment")
	}
	xs, _ := t.expr(x.X)
	name := func(e ast.Expr) string {
		if e == nil {
			return "_"
		}
		id, ok := e.(*ast.Ident)
		if !ok {
			fail("range variable %s", src(e))
		}
		return id.Name
	}
	k, v := name(x.Key), name(x.Value)
	t.push()
	defer t.pop()
	var rebind []string
	pat := func(n string) string {
		if n == "_" {
			return "_"
		}
		if assigned(x.Body, n) {
			rebind = append(rebind, n)
			t.bindName(n)
			return t.lname(n) + "'0"
		}
		t.bindName(n)
		return t.lname(n)
	}
	et := elemType(t.typeOf(x.X))
	defer func() { _ = et }()
	if k == "_" {
		t.line(ind, "for %s in %s do", pat(v), xs)
	} else {
		t.line(ind, "for (%s, %s) in enum %s do", pat(k), pat(v), xs)
	}
	for _, n := range rebind {
		t.line(ind+1, "let mut %s := %s'0", t.lname(n), t.lname(n))
	}
	t.setType(k, ast.NewIdent("int"))
	t.setType(v, et)
	if label != "" {
		t.line(ind+1, "let mut cont'%s := false", label)
	}
	t.loops = append(t.loops, label)
	t.block(ind+1, x.Body)
	t.loops = t.loops[:len(t.loops)-1]
}

func (t *tr) forStmt(ind int, x *ast.ForStmt) {
	defer t.afterInner(ind)
	t.loops = append(t.loops, "")
	defer func() { t.loops = t.loops[:len(t.loops)-1] }()
	if x.Init == nil && x.Cond == nil && x.Post == nil {
		f, ok := fuel[t.key]
		if !ok {
			fail("for { } without a fuel bound")
		}
		fe, err := parser.ParseExpr(f)
		if err != nil {
			fail("fuel expression %s", f)
		}
		b, _ := t.expr(fe)
		t.line(ind, "for _ in range (0 : Int) %s do", b)
		t.block(ind+1, x.Body)
		t.line(ind, "failure")
		return
	}
	// for i := a; i < b; i++
	init, ok := x.Init.(*ast.AssignStmt)
	if !ok || init.Tok != token.DEFINE || len(init.Lhs) != 1 || len(init.Rhs) != 1 {
		fail("for initialiser")
	}
	iv, ok := init.Lhs[0].(*ast.Ident)
	if !ok {
		fail("for initialiser")
	}
	cond, ok := x.Cond.(*ast.BinaryExpr)
	if !ok || cond.Op != token.LSS || src(cond.X) != iv.Name {
		fail("for condition %s", src(x.Cond))
	}
	post, ok := x.Post.(*ast.IncDecStmt)
	if !ok || post.Tok != token.INC || src(post.X) != iv.Name {
		fail("for post statement")
	}
	if assigned(x.Body, iv.Name) {
		fail("loop counter assigned in the body")
	}
	ast.Inspect(cond.Y, func(n ast.Node) bool {
		if id, ok := n.(*ast.Ident); ok && assigned(x.Body, id.Name) {
			fail("loop bound depends on %s which the body assigns", id.Name)
		}
		return true
	})
	a, _ := t.expr(init.Rhs[0])
	b, _ := t.expr(cond.Y)
	t.push()
	defer t.pop()
	t.bindName(iv.Name)
	t.line(ind, "for %s in range %s %s do", t.lname(iv.Name), a, b)
	t.block(ind+1, x.Body)
}

// ---------------------------------------------------------------------------------------------

func translate(key string) (text string, why string) {
	fd := funcs[key]
	if fd == nil {
		return "", "no such function in the package"
	}
	defer func() {
		if r := recover(); r != nil {
			u, ok := r.(untranslatable)
			if !ok {
				panic(r)
			}
			text, why = "", u.why
		}
	}()
	t := &tr{key: key, fd: fd, structOf: map[string]string{}, byText: map[string]int{}, buffers: map[string]bool{}, out: &bytes.Buffer{}, paramStruct: map[string]ast.Expr{}}
	t.push()
	var params []string
	flat := flattenRecv[key]
	if fd.Recv != nil && len(fd.Recv.List) == 1 && len(fd.Recv.List[0].Names) == 1 {
		t.recv = fd.Recv.List[0].Names[0].Name
		t.recvStruct = recvName(fd)
		if _, isStruct := structFields[t.recvStruct]; !isStruct && leanType(fd.Recv.List[0].Type) != "" {
			rt := fd.Recv.List[0].Type
			t.sc.vars[t.recv] = true
			t.setType(t.recv, rt)
			params = append(params, fmt.Sprintf("(%s : %s)", mangle(t.recv), leanType(rt)))
			recvUsed[key] = true
		} else if flat || !isGenStruct[t.recvStruct] {
			t.structOf[t.recv] = recvName(fd)
		} else {
			// the receiver is passed as a structure
			rt := fd.Recv.List[0].Type
			t.paramStruct[t.recv] = rt
			params = append(params, fmt.Sprintf("(%s : %s)", mangle(t.recv), leanType(rt)))
			recvUsed[key] = true
		}
	}
	for _, p := range fd.Type.Params.List {
		lt := leanType(p.Type)
		if st, _ := structName(p.Type); st != "" && (flat || !isGenStruct[st]) && effectTypes[src(p.Type)] == "" {
			lt = "" // flattened into the fields that are read
		}
		for _, n := range p.Names {
			if n.Name == "_" {
				continue
			}
			if lt == "" {
				st := ""
				switch x := p.Type.(type) {
				case *ast.Ident:
					st = x.Name
				case *ast.StarExpr:
					if id, ok := x.X.(*ast.Ident); ok {
						st = id.Name
					}
				}
				if _, ok := structFields[st]; !ok {
					fail("parameter %s of type %s", n.Name, src(p.Type))
				}
				t.structOf[n.Name] = st
				continue
			}
			t.sc.vars[n.Name] = true
			t.setType(n.Name, p.Type)
			params = append(params, fmt.Sprintf("(%s : %s)", mangle(n.Name), lt))
		}
	}
	if fd.Type.Results == nil && len(mutates[key]) == 0 {
		fail("no result")
	}
	if fd.Type.Results == nil {
		fd.Type.Results = &ast.FieldList{}
	}
	body := &bytes.Buffer{}
	t.out = body
	t.push() // the scope of the function body: named results are declared in it
	for _, r := range fd.Type.Results.List {
		lt := leanType(r.Type)
		if lt == "" {
			fail("result type %s", src(r.Type))
		}
		if len(r.Names) == 0 {
			t.results = append(t.results, lt)
		}
		for _, n := range r.Names {
			t.results = append(t.results, lt)
			t.named = append(t.named, n.Name)
			t.declare(2, n.Name, zero(lt), false)
			t.setType(n.Name, r.Type)
		}
	}
	// parameters are assignable in Go: re-bind mutably those the body assigns
	for _, p := range fd.Type.Params.List {
		for _, n := range p.Names {
			if n.Name != "_" && leanType(p.Type) != "" && assigned(fd.Body, n.Name) {
				t.line(2, "let mut %s := %s", mangle(n.Name), mangle(n.Name))
			}
		}
	}
	if len(mutates[key]) > 0 {
		// the final values of the changed parameters are appended to the result
		for _, m := range mutates[key] {
			var ty ast.Expr
			if m == t.recv && fd.Recv != nil {
				ty = fd.Recv.List[0].Type
			}
			for _, p := range fd.Type.Params.List {
				for _, n := range p.Names {
					if n.Name == m {
						ty = p.Type
					}
				}
			}
			if ty == nil || leanType(ty) == "" {
				fail("changed parameter %s", m)
			}
			t.results = append(t.results, leanType(ty))
		}
	}
	// struct parameters and logs are re-bound mutably: the body may change them
	var pnames []string
	for n := range t.paramStruct {
		pnames = append(pnames, n)
	}
	sort.Strings(pnames)
	for _, n := range pnames {
		if len(mutates[key]) > 0 {
			t.line(2, "let mut %s := %s", mangle(n), mangle(n))
		}
	}
	for _, p := range fd.Type.Params.List {
		_, isEff := effectTypes[src(p.Type)]
		for _, n := range p.Names {
			listed := false
			for _, m := range mutates[key] {
				listed = listed || m == n.Name
			}
			if isEff || (listed && !assigned(fd.Body, n.Name)) {
				t.line(2, "let mut %s := %s", mangle(n.Name), mangle(n.Name))
			}
		}
	}
	t.stmts(2, fd.Body.List)
	if len(mutates[key]) > 0 && len(t.named) == 0 && len(fd.Type.Results.List) == 0 {
		t.line(2, "return %s", tuple(t.mutNames()))
	}
	t.pop()
	flatExtras[key] = t.extras
	var extras []string
	var leaves []string
	for _, e := range t.extras {
		extras = append(extras, fmt.Sprintf("(%s : %s)", e.name, e.typ))
		leaves = append(leaves, "`"+e.text+"`")
	}
	head := &bytes.Buffer{}
	doc := fmt.Sprintf("%s `%s`", funcFile[key], key)
	if len(leaves) > 0 {
		doc += "; fields read, in order of first appearance: " + strings.Join(leaves, " ")
	}
	fmt.Fprintf(head, "/-- %s -/\n", doc)
	fmt.Fprintf(head, "def %s (X : Ext) %s : Option %s := do\n", leanName(key), strings.Join(append(params, extras...), " "), paren(strings.Join(t.results, " × ")))
	return head.String() + body.String(), ""
}

func main() {
	if len(os.Args) < 3 {
		fmt.Fprintln(os.Stderr, "usage: goimp <package dir> <out.lean>")
		os.Exit(2)
	}
	dir, out := os.Args[1], os.Args[2]
	files, _ := filepath.Glob(filepath.Join(dir, "*.go"))
	sort.Strings(files)
	for _, f := range files {
		if strings.HasSuffix(f, "_test.go") {
			continue
		}
		af, err := parser.ParseFile(fset, f, nil, parser.ParseComments)
		if err != nil {
			fmt.Fprintln(os.Stderr, err)
			os.Exit(2)
		}
		// files behind a build constraint that is off by default are not part of the package
		skip := false
		for _, cg := range af.Comments {
			if cg.Pos() < af.Package {
				for _, c := range cg.List {
					if strings.HasPrefix(c.Text, "//go:build") || strings.HasPrefix(c.Text, "// +build") {
						if strings.Contains(c.Text, "jsoniter") && !strings.Contains(c.Text, "!jsoniter") {
							skip = true
						}
					}
				}
			}
		}
		if skip {
			continue
		}
		for _, d := range af.Decls {
			switch x := d.(type) {
			case *ast.FuncDecl:
				key := x.Name.Name
				if r := recvName(x); r != "" {
					key = r + "." + key
				}
				if x.Body != nil {
					funcs[key] = x
					p := fset.Position(x.Pos())
					funcFile[key] = fmt.Sprintf("%s:%d", filepath.Base(p.Filename), p.Line)
				}
			case *ast.GenDecl:
				for _, sp := range x.Specs {
					switch s := sp.(type) {
					case *ast.TypeSpec:
						if st, ok := s.Type.(*ast.StructType); ok {
							m := map[string]ast.Expr{}
							for _, f := range st.Fields.List {
								for _, n := range f.Names {
									m[n.Name] = f.Type
									structFieldOrder[s.Name.Name] = append(structFieldOrder[s.Name.Name], n.Name)
								}
								if len(f.Names) == 0 {
									if id, ok := f.Type.(*ast.Ident); ok {
										embedded[s.Name.Name] = append(embedded[s.Name.Name], id.Name)
									}
								}
							}
							structFields[s.Name.Name] = m
						} else {
							typeDefs[s.Name.Name] = s.Type
						}
					case *ast.ValueSpec:
						for i, n := range s.Names {
							if x.Tok == token.CONST {
								if i < len(s.Values) {
									if b, ok := s.Values[i].(*ast.BasicLit); ok {
										constVals[n.Name] = b
									}
								}
							} else if x.Tok == token.VAR {
								if s.Type != nil {
									pkgVarTypes[n.Name] = s.Type
									pkgVars[n.Name] = s.Type
								} else if i < len(s.Values) {
									pkgVars[n.Name] = s.Values[i]
								}
							}
						}
					}
				}
			}
		}
	}
	for _, k := range targets {
		isTarget[k] = true
	}
	for _, st := range genStructs {
		isGenStruct[st] = true
	}
	// promoted fields of embedded structs
	for st, embs := range embedded {
		for _, e := range embs {
			for _, f := range structFieldOrder[e] {
				if _, ok := structFields[st][f]; !ok {
					structFields[st][f] = structFields[e][f]
					structFieldOrder[st] = append(structFieldOrder[st], f)
					if promotedFrom[st] == nil {
						promotedFrom[st] = map[string]string{}
					}
					promotedFrom[st][f] = e
				}
			}
		}
	}
	// first pass: which struct fields and Ext fields are used (the structures are emitted with these only),
	// and which un-listed package-level callees are needed: those become targets placed before their caller
	// when they are translatable themselves (else they are dropped again and the caller stays untranslatable)
	for {
		for _, k := range targets {
			isTarget[k] = true
		}
		wanted = nil
		for _, k := range targets {
			if _, why := translate(k); why != "" && onDemandTried[k] {
				if isTarget[k] {
					onDemandWhy[k] = why
				}
				isTarget[k] = false
			}
		}
		if !addOnDemand() {
			break
		}
	}
	{
		var keep []string
		for _, k := range targets {
			if onDemandTried[k] && !isTarget[k] {
				continue
			}
			keep = append(keep, k)
		}
		targets = keep
	}
	for _, k := range targets {
		isTarget[k] = true
	}
	var defs []string
	var status []string
	for _, k := range targets {
		text, why := translate(k)
		if why != "" {
			isTarget[k] = false
			for callee, w := range onDemandWhy {
				if why == "call of "+callee {
					why += " (an un-listed function that is not translatable itself: " + w + ")"
				}
			}
			defs = append(defs, fmt.Sprintf("/- NOT TRANSLATED `%s`: %s -/\n", k, why))
			status = append(status, fmt.Sprintf("skipped %s: %s", k, why))
			continue
		}
		defs = append(defs, text)
		status = append(status, "translated "+k)
	}
	var b bytes.Buffer
	b.WriteString("/- GENERATED by tools/goimp from the go-restful sources. Do not edit: regenerated on every run.\n")
	b.WriteString("   Imperative functions of the package, one Go statement per do-element (see tools/goimp/main.go). -/\n")
	b.WriteString("import Restful.Imp.Prelude\nset_option linter.unusedVariables false\nnamespace Restful.ImpGen\nopen Restful Restful.Imp\n\n")
	b.WriteString(genStructDecls())
	b.WriteString("/-- what the translated functions call but the translation does not interpret -/\nstructure Ext where\n")
	var fs []string
	for f := range extUsed {
		fs = append(fs, f)
	}
	sort.Strings(fs)
	for _, f := range fs {
		// every field has a default, so that a structure instance written before a field existed still elaborates
		fmt.Fprintf(&b, "  %s : %s := default\n", f, extUsed[f])
	}
	if len(fs) == 0 {
		b.WriteString("  unit : Unit := ()\n")
	}
	b.WriteString("\n")
	for _, d := range defs {
		b.WriteString(d)
		b.WriteString("\n")
	}
	var names []string
	for _, k := range targets {
		if isTarget[k] {
			names = append(names, strconv.Quote(k))
		}
	}
	fmt.Fprintf(&b, "/-- the functions translated on this run -/\ndef translated : List String := [%s]\n\nend Restful.ImpGen\n", strings.Join(names, ", "))
	if err := os.WriteFile(out, b.Bytes(), 0o644); err != nil {
		fmt.Fprintln(os.Stderr, err)
		os.Exit(2)
	}
	for _, s := range status {
		fmt.Println(s)
	}
}
