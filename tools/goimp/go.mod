module goimp

go 1.21
