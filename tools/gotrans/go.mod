module gotrans

go 1.21
