// gotrans translates the decision functions of a Go package into Lean 4 definitions.
//
// A function is translated when its body consists of local bindings (`x := e`), `if c { … return e }`
// statements (with or without else), SEARCH LOOPS and a final `return e`, over expressions built
// from parameters, field selections and indexings of them ("leaves"), literals, `len`,
// comparisons, arithmetic (+ - *), boolean connectives and CALLS of leaves / whitelisted external
// functions.  Every leaf becomes a parameter of the Lean definition, typed by the declared type of
// its last field (int → Int, string → Str, bool → Bool, []string → List Str, func(string) bool →
// Str → Bool), in order of first appearance; the body becomes nested `if … then … else`.
//
//   - A search loop is `for _, x := range <leaf of type []string> { S }` followed by the rest of the
//     block, where S is a chain of local bindings and else-less `if c { … return v }` statements:
//     "return v at the first element that satisfies c, otherwise go on".  It becomes
//     `search xs (fun x => if c₁ then some v₁ else if c₂ then some v₂ else none) rest` over the
//     helper `search` emitted at the top of the output.  Index variables, break / continue /
//     goto, assignments (other than `:=` of a fresh name), calls as statements and any other
//     statement in the body make the function untranslatable.  The loop variable is a bound
//     variable named by nesting depth (`x'1`, `x'2`, …): local names never reach the output.
//   - A call `pkg.F(args)` of a whitelisted function of an imported package (table `externals`)
//     becomes an application of a function PARAMETER `pkg_F` of the declared signature: such
//     functions are never interpreted, the tie theorems quantify over them or instantiate them.
//   - A call through a function-typed struct field or parameter (`c.AllowedDomainFunc(e)`) becomes an
//     application of a function leaf (`c_AllowedDomainFunc : Str → Bool`); `c.AllowedDomainFunc != nil`
//     is the Bool leaf `c_AllowedDomainFunc_isNil` like every other nil test.  (User code is data:
//     a function of its arguments, as in the hand-written models.)
//   - `len(x)` of a string or []string leaf (or of any translated Str expression) is the length of
//     the Lean list; of anything else an Int leaf `len_x`.
//
// Everything else in the package is skipped (`-why` lists the reasons): anything the tool does not
// fully understand is rejected, never guessed.  The output is regenerated on every run; the
// hand-written tie theorems (Lemmas/Tie*.lean) state that the model's definitions ARE these.
package main

import (
	"bytes"
	"fmt"
	"go/ast"
	"go/parser"
	"go/printer"
	"go/token"
	"os"
	"path/filepath"
	"sort"
	"strings"
)

var fset = token.NewFileSet()

func src(n ast.Node) string {
	var b bytes.Buffer
	printer.Fprint(&b, fset, n)
	return b.String()
}

type untranslatable struct{ why string }

func fail(format string, a ...interface{}) { panic(untranslatable{fmt.Sprintf(format, a...)}) }

// fieldTypes: field name -> declared types (text -> type expression) over all structs of the package
var fieldTypes = map[string]map[string]ast.Expr{}

// structFields: struct type name -> field name -> declared type
var structFields = map[string]map[string]ast.Expr{}

// methodNames: every method name declared in the package (a selector call `x.m(…)` whose name is
// also a method somewhere is never read as a call through a function-typed field)
var methodNames = map[string]bool{}

// externals: the functions of other packages a translated function may call, by import path and
// name, with the Lean type of the function PARAMETER that stands for them.  They are never
// interpreted.
var externals = map[string]string{
	"strings.ToLower":    "Str → Str",
	"strings.ToUpper":    "Str → Str",
	"strings.TrimSpace":  "Str → Str",
	"strings.Trim":       "Str → Str → Str",
	"strings.TrimLeft":   "Str → Str → Str",
	"strings.TrimRight":  "Str → Str → Str",
	"strings.TrimPrefix": "Str → Str → Str",
	"strings.TrimSuffix": "Str → Str → Str",
	"strings.HasPrefix":  "Str → Str → Bool",
	"strings.HasSuffix":  "Str → Str → Bool",
	"strings.Contains":   "Str → Str → Bool",
	"strings.EqualFold":  "Str → Str → Bool",
}

// reserved: names a parameter of a generated definition must not have (Lean keywords and the
// names the generated file itself defines)
var reserved = map[string]bool{"search": true, "translatedNames": true, "sortCalls": true,
	"at": true, "from": true, "fun": true, "in": true, "end": true, "do": true, "then": true, "else": true, "if": true,
	"let": true, "have": true, "show": true, "open": true, "by": true, "with": true, "match": true, "def": true,
	"theorem": true, "namespace": true, "section": true, "where": true, "deriving": true, "instance": true,
	"structure": true, "class": true, "import": true, "true": true, "false": true, "some": true, "none": true,
	"decide": true, "Type": true, "Prop": true, "Sort": true, "forall": true, "exists": true, "for": true,
	"return": true, "mut": true, "try": true, "catch": true, "finally": true, "unless": true, "using": true,
	"local": true, "private": true, "protected": true, "variable": true, "universe": true, "example": true,
	"abbrev": true, "axiom": true, "inductive": true, "mutual": true, "extends": true, "macro": true,
	"syntax": true, "notation": true, "infix": true, "infixl": true, "infixr": true, "prefix": true,
	"postfix": true, "set_option": true, "attribute": true, "export": true, "nomatch": true, "nofun": true,
	"calc": true, "suffices": true, "obtain": true, "this": true, "sorry": true, "break": true, "continue": true}

type leaf struct{ name, typ, text string }

type tr struct {
	params     map[string]string   // parameter / receiver name -> Go type text
	paramTypes map[string]ast.Expr // parameter name -> declared type (not for the receiver)
	imports    map[string]string   // file-scope package name -> import path
	local      map[string]ast.Expr
	bound      map[string]string // loop variable (Go name) -> Lean name
	leaves     []leaf
	byText     map[string]int
}

// leanType: the Lean type of a declared Go type, "" when outside the subset
func leanType(e ast.Expr) string {
	switch x := e.(type) {
	case *ast.Ident:
		return basic(x.Name)
	case *ast.ArrayType:
		if id, ok := x.Elt.(*ast.Ident); ok && x.Len == nil && id.Name == "string" {
			return "List Str"
		}
	case *ast.FuncType:
		if x.TypeParams != nil || x.Params == nil || len(x.Params.List) == 0 {
			return ""
		}
		var parts []string
		for _, p := range x.Params.List {
			id, ok := p.Type.(*ast.Ident)
			if !ok || basic(id.Name) == "" {
				return ""
			}
			n := len(p.Names)
			if n == 0 {
				n = 1
			}
			for i := 0; i < n; i++ {
				parts = append(parts, basic(id.Name))
			}
		}
		if x.Results == nil || len(x.Results.List) != 1 || len(x.Results.List[0].Names) > 1 {
			return ""
		}
		id, ok := x.Results.List[0].Type.(*ast.Ident)
		if !ok || basic(id.Name) == "" {
			return ""
		}
		return strings.Join(append(parts, basic(id.Name)), " → ")
	}
	return ""
}

// funcParts splits a function type into argument types and result type
func funcParts(ty string) ([]string, string, bool) {
	p := strings.Split(ty, " → ")
	if len(p) < 2 {
		return nil, "", false
	}
	return p[:len(p)-1], p[len(p)-1], true
}

func basic(t string) string {
	switch t {
	case "int", "int8", "int16", "int32", "int64", "uint", "uint8", "uint16", "uint32", "uint64":
		return "Int"
	case "string":
		return "Str"
	case "bool":
		return "Bool"
	case "rune", "byte":
		return "Char"
	}
	return ""
}

func ascii(s string) bool {
	for i := 0; i < len(s); i++ {
		if s[i] >= 0x80 || s[i] < 0x20 {
			return false
		}
	}
	return true
}

func sanitize(s string) string {
	var b strings.Builder
	for _, c := range s {
		switch {
		case c >= 'a' && c <= 'z', c >= 'A' && c <= 'Z', c >= '0' && c <= '9':
			b.WriteRune(c)
		case c == '.', c == '[':
			b.WriteByte('_')
		}
	}
	return b.String()
}

// subst replaces local names by their definitions (bindings are single-assignment in the subset).
func (t *tr) subst(e ast.Expr) ast.Expr {
	switch x := e.(type) {
	case *ast.Ident:
		if _, ok := t.bound[x.Name]; ok {
			return x
		}
		if d, ok := t.local[x.Name]; ok {
			return t.subst(d)
		}
		return x
	case *ast.SelectorExpr:
		return &ast.SelectorExpr{X: t.subst(x.X), Sel: x.Sel}
	case *ast.IndexExpr:
		return &ast.IndexExpr{X: t.subst(x.X), Index: t.subst(x.Index)}
	case *ast.ParenExpr:
		return t.subst(x.X)
	case *ast.StarExpr:
		return t.subst(x.X)
	}
	return e
}

// rooted tells whether a selector/index chain starts at a parameter or the receiver.
func (t *tr) rooted(e ast.Expr) bool {
	switch x := e.(type) {
	case *ast.Ident:
		_, ok := t.params[x.Name]
		return ok
	case *ast.SelectorExpr:
		return t.rooted(x.X)
	case *ast.IndexExpr:
		if id, ok := x.Index.(*ast.Ident); !ok || t.params[id.Name] == "" {
			return false
		}
		return t.rooted(x.X)
	}
	return false
}

// leafType resolves the Lean type of a (substituted, rooted) leaf expression; "" with a reason
// when it has none in the subset.  A field selected directly from a parameter or the receiver of a
// struct type of the package is typed by that struct's declaration; any other field by its name,
// provided every struct of the package that has a field of this name declares the same type.
func (t *tr) leafType(e ast.Expr) (string, string) {
	switch x := e.(type) {
	case *ast.Ident:
		if pt, ok := t.paramTypes[x.Name]; ok {
			return leanType(pt), ""
		}
		return basic(t.params[x.Name]), ""
	case *ast.SelectorExpr:
		var decl ast.Expr
		if id, ok := x.X.(*ast.Ident); ok {
			if fs, ok := structFields[strings.TrimPrefix(t.params[id.Name], "*")]; ok {
				decl = fs[x.Sel.Name]
				if decl == nil {
					return "", fmt.Sprintf("%s is not a field of %s", x.Sel.Name, t.params[id.Name])
				}
			}
		}
		if decl == nil {
			ts := fieldTypes[x.Sel.Name]
			if len(ts) != 1 {
				return "", fmt.Sprintf("field %s has %d declared types", x.Sel.Name, len(ts))
			}
			for _, v := range ts {
				decl = v
			}
		}
		if st, ok := decl.(*ast.StarExpr); ok {
			if id, ok := st.X.(*ast.Ident); ok {
				return basic(id.Name), ""
			}
			return "", ""
		}
		typ := leanType(decl)
		if _, _, isFunc := funcParts(typ); isFunc && methodNames[x.Sel.Name] {
			return "", fmt.Sprintf("%s is also a method name", x.Sel.Name)
		}
		return typ, ""
	}
	return "", ""
}

func (t *tr) addLeaf(name, typ, text string) string {
	key := text + ":" + typ
	if i, ok := t.byText[key]; ok {
		return t.leaves[i].name
	}
	if reserved[name] {
		name += "_"
	}
	for _, l := range t.leaves {
		if l.name == name {
			name += "_" + fmt.Sprint(len(t.leaves))
		}
	}
	t.byText[key] = len(t.leaves)
	t.leaves = append(t.leaves, leaf{name, typ, text})
	return name
}

func (t *tr) leafOf(e ast.Expr) (string, string) {
	e = t.subst(e)
	if !t.rooted(e) {
		fail("expression not rooted at a parameter: %s", src(e))
	}
	text := strings.Join(strings.Fields(src(e)), "")
	typ, why := t.leafType(e)
	if why != "" {
		fail("%s", why)
	}
	if typ == "" {
		fail("no basic type for %s", text)
	}
	return t.addLeaf(sanitize(text), typ, text), typ
}

// isPackage: `name` denotes an imported package here (not shadowed by a parameter, local or loop variable)
func (t *tr) isPackage(name string) (string, bool) {
	if _, ok := t.params[name]; ok {
		return "", false
	}
	if _, ok := t.local[name]; ok {
		return "", false
	}
	if _, ok := t.bound[name]; ok {
		return "", false
	}
	p, ok := t.imports[name]
	return p, ok
}

// apply translates the arguments of a call of `fn : ty` and checks them against its type
func (t *tr) apply(fn, ty string, call *ast.CallExpr) (string, string) {
	args, res, ok := funcParts(ty)
	if !ok {
		fail("call of %s of type %s", fn, ty)
	}
	if call.Ellipsis != token.NoPos || len(call.Args) != len(args) {
		fail("call of %s with %d arguments", fn, len(call.Args))
	}
	out := "(" + fn
	for i, a := range call.Args {
		s, ta := t.expr(a)
		if ta != args[i] {
			fail("argument %d of %s has type %s, not %s", i+1, fn, ta, args[i])
		}
		out += " " + s
	}
	return out + ")", res
}

// expr translates to a Lean term and returns its type.
func (t *tr) expr(e ast.Expr) (string, string) {
	switch x := e.(type) {
	case *ast.ParenExpr:
		s, ty := t.expr(x.X)
		return "(" + s + ")", ty
	case *ast.BasicLit:
		switch x.Kind {
		case token.INT:
			return "(" + x.Value + " : Int)", "Int"
		case token.STRING:
			// one Char per Go byte: ASCII only; the escapes Go and Lean read alike
			esc := strings.NewReplacer(`\\`, "", `\t`, "", `\n`, "", `\r`, "", `\"`, "").Replace(x.Value)
			if strings.HasPrefix(x.Value, "`") || strings.Contains(esc, "\\") || !ascii(x.Value) {
				fail("string literal with escapes")
			}
			return x.Value + ".toList", "Str"
		case token.CHAR:
			if strings.Contains(x.Value, "\\") && x.Value != "'\\t'" && x.Value != "'\\n'" || !ascii(x.Value) {
				fail("char literal with escapes")
			}
			return x.Value, "Char"
		}
		fail("literal %s", x.Value)
	case *ast.Ident:
		switch x.Name {
		case "true", "false":
			return x.Name, "Bool"
		}
		if n, ok := t.bound[x.Name]; ok {
			return n, "Str"
		}
		if _, ok := t.local[x.Name]; ok {
			return t.expr(t.local[x.Name])
		}
		n, ty := t.leafOf(x)
		return n, ty
	case *ast.SelectorExpr:
		if id, ok := x.X.(*ast.Ident); ok && id.Name == "http" {
			if v, ok := httpStatus[x.Sel.Name]; ok {
				return fmt.Sprintf("(%d : Int)", v), "Int"
			}
		}
		n, ty := t.leafOf(x)
		return n, ty
	case *ast.IndexExpr:
		n, ty := t.leafOf(x)
		return n, ty
	case *ast.CallExpr:
		if id, ok := x.Fun.(*ast.Ident); ok && id.Name == "len" && len(x.Args) == 1 {
			if _, shadowed := t.params["len"]; shadowed || t.local["len"] != nil || t.bound["len"] != "" {
				fail("len is shadowed")
			}
			a := t.subst(x.Args[0])
			if !t.rooted(a) {
				// the length of a translated string / string list expression
				s, ty := t.expr(x.Args[0])
				if ty != "Str" && ty != "List Str" {
					fail("len of %s", src(a))
				}
				return "((List.length " + s + " : Nat) : Int)", "Int"
			}
			if ty, _ := t.leafType(a); ty == "Str" || ty == "List Str" {
				n, _ := t.leafOf(a)
				return "((List.length " + n + " : Nat) : Int)", "Int"
			}
			text := "len(" + strings.Join(strings.Fields(src(a)), "") + ")"
			return t.addLeaf("len_"+sanitize(src(a)), "Int", text), "Int"
		}
		// a whitelisted function of an imported package: a function parameter
		if sel, ok := x.Fun.(*ast.SelectorExpr); ok {
			if id, ok := sel.X.(*ast.Ident); ok {
				if path, ok := t.isPackage(id.Name); ok {
					full := path + "." + sel.Sel.Name
					ty, ok := externals[full]
					if !ok {
						fail("call %s", full)
					}
					fn := t.addLeaf(sanitize(full), ty, full)
					return t.apply(fn, ty, x)
				}
			}
		}
		// a call through a function-typed field or parameter: a function leaf
		switch x.Fun.(type) {
		case *ast.Ident, *ast.SelectorExpr:
			if f := t.subst(x.Fun); t.rooted(f) {
				if ty, _ := t.leafType(f); ty != "" {
					if _, _, isFunc := funcParts(ty); isFunc {
						fn, _ := t.leafOf(f)
						return t.apply(fn, ty, x)
					}
				}
			}
		}
		fail("call %s", src(x.Fun))
	case *ast.UnaryExpr:
		s, ty := t.expr(x.X)
		switch {
		case x.Op == token.NOT && ty == "Bool":
			return "(!" + s + ")", "Bool"
		case x.Op == token.SUB && ty == "Int":
			return "(-" + s + ")", "Int"
		}
		fail("unary %s on %s", x.Op, ty)
	case *ast.BinaryExpr:
		// `x == nil`, `nil == x`, `x != nil`: one Bool leaf "x is nil"
		if x.Op == token.EQL || x.Op == token.NEQ {
			var other ast.Expr
			if id, ok := x.X.(*ast.Ident); ok && id.Name == "nil" {
				other = x.Y
			} else if id, ok := x.Y.(*ast.Ident); ok && id.Name == "nil" {
				other = x.X
			}
			if other != nil {
				o := t.subst(other)
				if !t.rooted(o) {
					fail("nil test of %s", src(o))
				}
				text := strings.Join(strings.Fields(src(o)), "") + "==nil"
				key := text + ":Bool"
				i, ok := t.byText[key]
				if !ok {
					i = len(t.leaves)
					t.byText[key] = i
					t.leaves = append(t.leaves, leaf{sanitize(src(o)) + "_isNil", "Bool", text})
				}
				if x.Op == token.NEQ {
					return "(!" + t.leaves[i].name + ")", "Bool"
				}
				return t.leaves[i].name, "Bool"
			}
		}
		a, ta := t.expr(x.X)
		b, tb := t.expr(x.Y)
		if ta != tb {
			fail("operands of %s have types %s and %s", x.Op, ta, tb)
		}
		switch x.Op {
		case token.LAND:
			return "(" + a + " && " + b + ")", "Bool"
		case token.LOR:
			return "(" + a + " || " + b + ")", "Bool"
		case token.EQL:
			return "(" + a + " == " + b + ")", "Bool"
		case token.NEQ:
			return "(" + a + " != " + b + ")", "Bool"
		}
		if ta == "Int" {
			switch x.Op {
			case token.LSS:
				return "decide (" + a + " < " + b + ")", "Bool"
			case token.GTR:
				return "decide (" + a + " > " + b + ")", "Bool"
			case token.LEQ:
				return "decide (" + a + " ≤ " + b + ")", "Bool"
			case token.GEQ:
				return "decide (" + a + " ≥ " + b + ")", "Bool"
			case token.ADD:
				return "(" + a + " + " + b + ")", "Int"
			case token.SUB:
				return "(" + a + " - " + b + ")", "Int"
			case token.MUL:
				return "(" + a + " * " + b + ")", "Int"
			}
		}
		if ta == "Str" {
			switch x.Op {
			case token.LSS:
				return "Str.lt " + a + " " + b, "Bool"
			case token.GTR:
				return "Str.lt " + b + " " + a, "Bool"
			}
		}
		fail("binary %s on %s", x.Op, ta)
	}
	fail("expression %T", e)
	return "", ""
}

// stmts translates a statement list that must end in a return; `rest` is what follows the list
// in the enclosing block ("" when nothing may follow).
func (t *tr) stmts(l []ast.Stmt, ind string) (string, string) {
	if len(l) == 0 {
		fail("block does not end in a return")
	}
	switch s := l[0].(type) {
	case *ast.ReturnStmt:
		if len(s.Results) != 1 {
			fail("return with %d results", len(s.Results))
		}
		return t.expr(s.Results[0])
	case *ast.AssignStmt:
		if s.Tok != token.DEFINE || len(s.Lhs) != 1 || len(s.Rhs) != 1 {
			fail("assignment %s", src(s))
		}
		id, ok := s.Lhs[0].(*ast.Ident)
		if !ok {
			fail("assignment target")
		}
		if _, dup := t.local[id.Name]; dup {
			fail("%s assigned twice", id.Name)
		}
		if _, dup := t.bound[id.Name]; dup {
			fail("%s assigned twice", id.Name)
		}
		t.local[id.Name] = s.Rhs[0]
		return t.stmts(l[1:], ind)
	case *ast.IfStmt:
		if s.Init != nil {
			fail("if with init")
		}
		c, tc := t.expr(s.Cond)
		if tc != "Bool" {
			fail("condition of type %s", tc)
		}
		saved := map[string]ast.Expr{}
		for k, v := range t.local {
			saved[k] = v
		}
		th, tt := t.stmts(s.Body.List, ind+"  ")
		t.local = saved
		var el, te string
		if s.Else != nil {
			eb, ok := s.Else.(*ast.BlockStmt)
			if !ok {
				fail("else if")
			}
			el, te = t.stmts(eb.List, ind+"  ")
			if len(l) > 1 {
				fail("statements after if/else")
			}
		} else {
			el, te = t.stmts(l[1:], ind)
		}
		if tt != te {
			fail("branches of types %s and %s", tt, te)
		}
		if strings.Contains(th, "\n") {
			return "if " + c + " then\n" + ind + "  " + th + "\n" + ind + "else " + el, tt
		}
		return "if " + c + " then " + th + "\n" + ind + "else " + el, tt
	case *ast.RangeStmt:
		// search loop: `for _, x := range xs { if c { … return v } … }` followed by the rest
		if s.Tok != token.DEFINE || s.Key == nil || s.Value == nil {
			fail("range loop that is not `for _, x := range`")
		}
		if k, ok := s.Key.(*ast.Ident); !ok || k.Name != "_" {
			fail("range loop with an index variable")
		}
		v, ok := s.Value.(*ast.Ident)
		if !ok || v.Name == "_" {
			fail("range loop without an element variable")
		}
		xs, txs := t.leafOf(s.X)
		if txs != "List Str" {
			fail("range over %s of type %s", src(s.X), txs)
		}
		_, isParam := t.params[v.Name]
		_, isLocal := t.local[v.Name]
		_, isBound := t.bound[v.Name]
		_, isImport := t.imports[v.Name]
		if isParam || isLocal || isBound || isImport || v.Name == "len" || v.Name == "nil" || v.Name == "true" || v.Name == "false" {
			fail("loop variable %s shadows another name", v.Name)
		}
		saved := map[string]ast.Expr{}
		for k, e := range t.local {
			saved[k] = e
		}
		lean := fmt.Sprintf("x'%d", len(t.bound)+1)
		t.bound[v.Name] = lean
		body, tb := t.loopBody(s.Body.List, ind+"    ")
		delete(t.bound, v.Name)
		t.local = saved
		rest, tr := t.stmts(l[1:], ind+"  ")
		if tb != "" && tb != tr {
			fail("loop returns %s, the rest %s", tb, tr)
		}
		return "search " + xs + " (fun (" + lean + " : Str) =>\n" + ind + "    " + body + ")\n" + ind + "  (" + rest + ")", tr
	}
	fail("statement %T", l[0])
	return "", ""
}

// loopBody translates the body of a search loop into a term of type `Option β`: local bindings
// and else-less `if c { … return v }` statements (`some v` at the first that fires), `none` at the
// end of the body (go on with the next element).  Returns the type β ("" when nothing returns).
func (t *tr) loopBody(l []ast.Stmt, ind string) (string, string) {
	if len(l) == 0 {
		return "none", ""
	}
	switch s := l[0].(type) {
	case *ast.AssignStmt:
		if s.Tok != token.DEFINE || len(s.Lhs) != 1 || len(s.Rhs) != 1 {
			fail("assignment %s in a loop", src(s))
		}
		id, ok := s.Lhs[0].(*ast.Ident)
		if !ok {
			fail("assignment target")
		}
		_, isParam := t.params[id.Name]
		_, isLocal := t.local[id.Name]
		_, isBound := t.bound[id.Name]
		if isParam || isLocal || isBound {
			fail("%s assigned twice", id.Name)
		}
		t.local[id.Name] = s.Rhs[0]
		return t.loopBody(l[1:], ind)
	case *ast.IfStmt:
		if s.Init != nil {
			fail("if with init")
		}
		if s.Else != nil {
			fail("if/else in a loop body")
		}
		c, tc := t.expr(s.Cond)
		if tc != "Bool" {
			fail("condition of type %s", tc)
		}
		saved := map[string]ast.Expr{}
		for k, v := range t.local {
			saved[k] = v
		}
		th, tt := t.stmts(s.Body.List, ind+"  ")
		t.local = saved
		el, te := t.loopBody(l[1:], ind)
		if te != "" && te != tt {
			fail("loop returns %s and %s", tt, te)
		}
		return "if " + c + " then some (" + th + ")\n" + ind + "else " + el, tt
	}
	fail("statement %T in a loop body", l[0])
	return "", ""
}

var httpStatus = map[string]int{"StatusOK": 200, "StatusCreated": 201, "StatusAccepted": 202, "StatusNoContent": 204, "StatusNotModified": 304,
	"StatusBadRequest": 400, "StatusNotFound": 404, "StatusMethodNotAllowed": 405, "StatusNotAcceptable": 406, "StatusUnsupportedMediaType": 415,
	"StatusInternalServerError": 500}

type result struct{ name, lean, doc string }

// the one generic helper of the generated file: a search loop
const searchHelper = `/-- the search loop ` + "`for _, x := range xs { if c₁ { return v₁ } … }; rest`" + `: the value returned at the
    first element at which the body returns (` + "`f x = some v`" + `), the rest of the block when the loop
    runs to its end -/
def search {α β : Type} : List α → (α → Option β) → β → β
  | [], _, rest => rest
  | x :: xs, f, rest =>
    match f x with
    | some v => v
    | none => search xs f rest

theorem search_eq_findSome? {α β : Type} (xs : List α) (f : α → Option β) (rest : β) :
    search xs f rest = (match xs.findSome? f with | some v => v | none => rest) := by
  induction xs with
  | nil => rfl
  | cons x xs ih => cases h : f x <;> simp [search, h, ih]

`

func translate(fd *ast.FuncDecl, file string, imports map[string]string) (res *result, why string) {
	defer func() {
		if p := recover(); p != nil {
			u, ok := p.(untranslatable)
			if !ok {
				panic(p)
			}
			res, why = nil, u.why
		}
	}()
	t := &tr{params: map[string]string{}, paramTypes: map[string]ast.Expr{}, imports: imports,
		local: map[string]ast.Expr{}, bound: map[string]string{}, byText: map[string]int{}}
	name := fd.Name.Name
	if reserved[name] && fd.Recv == nil {
		fail("name reserved by the generated file")
	}
	if fd.Type.TypeParams != nil {
		fail("generic function")
	}
	if fd.Recv != nil && len(fd.Recv.List) > 0 {
		rt := strings.TrimPrefix(src(fd.Recv.List[0].Type), "*")
		name = rt + "_" + name
		for _, n := range fd.Recv.List[0].Names {
			t.params[n.Name] = rt
		}
	}
	for _, p := range fd.Type.Params.List {
		for _, n := range p.Names {
			t.params[n.Name] = src(p.Type)
			t.paramTypes[n.Name] = p.Type
		}
	}
	if fd.Type.Results == nil || len(fd.Type.Results.List) != 1 || len(fd.Type.Results.List[0].Names) > 0 {
		fail("not a single unnamed result")
	}
	rty := basic(src(fd.Type.Results.List[0].Type))
	if rty == "" {
		fail("result type %s", src(fd.Type.Results.List[0].Type))
	}
	body, ty := t.stmts(fd.Body.List, "    ")
	if ty != rty {
		fail("body of type %s, result %s", ty, rty)
	}
	if len(t.leaves) == 0 {
		fail("constant function")
	}
	var b strings.Builder
	pos := fset.Position(fd.Pos())
	fmt.Fprintf(&b, "/-- %s:%d `%s`; leaves, in order of first appearance:", filepath.Base(file), pos.Line, strings.ReplaceAll(name, "_", "."))
	for _, l := range t.leaves {
		fmt.Fprintf(&b, " `%s`", l.text)
	}
	b.WriteString(" -/\n")
	fmt.Fprintf(&b, "def %s", name)
	for _, l := range t.leaves {
		fmt.Fprintf(&b, " (%s : %s)", l.name, l.typ)
	}
	fmt.Fprintf(&b, " : %s :=\n    %s\n", rty, body)
	return &result{name: name, lean: b.String()}, ""
}

func main() {
	args := os.Args[1:]
	why := os.Getenv("GOTRANS_VERBOSE") != ""
	if len(args) > 0 && (args[0] == "-why" || args[0] == "-v") {
		why, args = true, args[1:]
	}
	if len(args) != 2 {
		fmt.Fprintln(os.Stderr, "usage: gotrans [-why] <repo dir> <out.lean>\n  -why  list the functions outside the translated subset with the reason, and the translated ones")
		os.Exit(2)
	}
	dir, out := args[0], args[1]
	files, _ := filepath.Glob(filepath.Join(dir, "*.go"))
	sort.Strings(files)
	var parsed []*ast.File
	var names []string
	var imports []map[string]string
	for _, f := range files {
		if strings.HasSuffix(f, "_test.go") {
			continue
		}
		af, err := parser.ParseFile(fset, f, nil, 0)
		if err != nil {
			fmt.Fprintln(os.Stderr, err)
			os.Exit(1)
		}
		parsed = append(parsed, af)
		names = append(names, f)
		// file-scope package names: `import "strings"` is `strings`; renamed, dot and blank imports
		// are not resolved (calls through them stay untranslatable)
		im := map[string]string{}
		for _, is := range af.Imports {
			path := strings.Trim(is.Path.Value, "\"")
			if is.Name == nil && !strings.Contains(path, "/") && !strings.Contains(path, ".") {
				im[path] = path
			}
		}
		imports = append(imports, im)
		for _, d := range af.Decls {
			if fd, ok := d.(*ast.FuncDecl); ok && fd.Recv != nil {
				methodNames[fd.Name.Name] = true
			}
			gd, ok := d.(*ast.GenDecl)
			if !ok {
				continue
			}
			for _, sp := range gd.Specs {
				ts, ok := sp.(*ast.TypeSpec)
				if !ok {
					continue
				}
				st, ok := ts.Type.(*ast.StructType)
				if !ok {
					continue
				}
				if ts.TypeParams == nil {
					structFields[ts.Name.Name] = map[string]ast.Expr{}
				}
				for _, fl := range st.Fields.List {
					for _, n := range fl.Names {
						if fieldTypes[n.Name] == nil {
							fieldTypes[n.Name] = map[string]ast.Expr{}
						}
						fieldTypes[n.Name][src(fl.Type)] = fl.Type
						if structFields[ts.Name.Name] != nil {
							structFields[ts.Name.Name][n.Name] = fl.Type
						}
					}
				}
				for _, fl := range st.Fields.List {
					if len(fl.Names) == 0 {
						// an embedded field: its promoted fields are not resolved through this struct
						delete(structFields, ts.Name.Name)
					}
				}
			}
		}
	}
	// call sites of the sort package: which ordering is applied to what, and with which algorithm
	var sortCalls [][2]string
	for _, af := range parsed {
		for _, d := range af.Decls {
			fd, ok := d.(*ast.FuncDecl)
			if !ok || fd.Body == nil {
				continue
			}
			fname := fd.Name.Name
			if fd.Recv != nil && len(fd.Recv.List) > 0 {
				fname = strings.TrimPrefix(src(fd.Recv.List[0].Type), "*") + "." + fname
			}
			ast.Inspect(fd.Body, func(n ast.Node) bool {
				if c, ok := n.(*ast.CallExpr); ok {
					if sel, ok := c.Fun.(*ast.SelectorExpr); ok {
						if id, ok := sel.X.(*ast.Ident); ok && id.Name == "sort" && sel.Sel.Name != "Reverse" {
							sortCalls = append(sortCalls, [2]string{fname, strings.Join(strings.Fields(src(c)), " ")})
						}
					}
				}
				return true
			})
		}
	}
	var done []*result
	var skipped []string
	for i, af := range parsed {
		for _, d := range af.Decls {
			fd, ok := d.(*ast.FuncDecl)
			if !ok || fd.Body == nil {
				continue
			}
			r, why := translate(fd, names[i], imports[i])
			if r != nil {
				done = append(done, r)
			} else {
				n := fd.Name.Name
				if fd.Recv != nil && len(fd.Recv.List) > 0 {
					n = strings.TrimPrefix(src(fd.Recv.List[0].Type), "*") + "." + n
				}
				skipped = append(skipped, n+": "+why)
			}
		}
	}
	sort.Slice(done, func(i, j int) bool { return done[i].name < done[j].name })
	var b strings.Builder
	b.WriteString("/- GENERATED by tools/gotrans from the go-restful sources. Do not edit: regenerated on every run.\n")
	b.WriteString("   The loop-free decision functions of the package, translated statement by statement. -/\n")
	b.WriteString("import Restful.Go.Str\nnamespace Restful.Translated\nopen Restful\n\n")
	b.WriteString(searchHelper)
	var ns []string
	for _, r := range done {
		b.WriteString(r.lean)
		b.WriteString("\n")
		ns = append(ns, "\""+r.name+"\"")
	}
	fmt.Fprintf(&b, "def translatedNames : List String := [%s]\n\n", strings.Join(ns, ", "))
	b.WriteString("/-- every call into package sort: (enclosing function, call as written) -/\ndef sortCalls : List (String × String) := [")
	for i, c := range sortCalls {
		if i > 0 {
			b.WriteString(", ")
		}
		fmt.Fprintf(&b, "(%q, %q)", c[0], c[1])
	}
	b.WriteString("]\n\n")
	fmt.Fprintf(&b, "/- %d functions translated, %d outside the translated subset -/\n", len(done), len(skipped))
	b.WriteString("end Restful.Translated\n")
	if err := os.WriteFile(out, []byte(b.String()), 0o644); err != nil {
		fmt.Fprintln(os.Stderr, err)
		os.Exit(1)
	}
	if why {
		for _, s := range skipped {
			fmt.Fprintln(os.Stderr, "skipped", s)
		}
		for _, r := range done {
			fmt.Fprintln(os.Stderr, "translated", r.name)
		}
		fmt.Fprintf(os.Stderr, "%d functions translated, %d outside the translated subset\n", len(done), len(skipped))
	}
}
