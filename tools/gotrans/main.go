// gotrans translates the loop-free decision functions of a Go package into Lean 4 definitions.
//
// A function is translated when its body consists of local bindings (`x := e`), `if c { … return e }`
// statements (with or without else) and a final `return e`, over expressions built from
// parameters, field selections and indexings of them ("leaves"), literals, `len`, comparisons,
// arithmetic (+ - *) and boolean connectives.  Every leaf becomes a parameter of the Lean
// definition, typed by the declared type of its last field (int → Int, string → Str, bool → Bool),
// in order of first appearance; the body becomes nested `if … then … else`.  Everything else in
// the package is skipped (and listed in a comment).  The output is regenerated on every run; the
// hand-written tie theorems (Lemmas/Translated.lean) state that the model's definitions ARE these.
package main

import (
	"bytes"
	"fmt"
	"go/ast"
	"go/parser"
	"go/printer"
	"go/token"
	"os"
	"path/filepath"
	"sort"
	"strings"
)

var fset = token.NewFileSet()

func src(n ast.Node) string {
	var b bytes.Buffer
	printer.Fprint(&b, fset, n)
	return b.String()
}

type untranslatable struct{ why string }

func fail(format string, a ...interface{}) { panic(untranslatable{fmt.Sprintf(format, a...)}) }

// fieldTypes: field name -> set of declared types over all structs of the package
var fieldTypes = map[string]map[string]bool{}

type leaf struct{ name, typ, text string }

type tr struct {
	params map[string]string // parameter / receiver name -> Go type text
	local  map[string]ast.Expr
	leaves []leaf
	byText map[string]int
}

func basic(t string) string {
	switch t {
	case "int", "int8", "int16", "int32", "int64", "uint", "uint8", "uint16", "uint32", "uint64":
		return "Int"
	case "string":
		return "Str"
	case "bool":
		return "Bool"
	case "rune", "byte":
		return "Char"
	}
	return ""
}

func sanitize(s string) string {
	var b strings.Builder
	for _, c := range s {
		switch {
		case c >= 'a' && c <= 'z', c >= 'A' && c <= 'Z', c >= '0' && c <= '9':
			b.WriteRune(c)
		case c == '.', c == '[':
			b.WriteByte('_')
		}
	}
	return b.String()
}

// subst replaces local names by their definitions (bindings are single-assignment in the subset).
func (t *tr) subst(e ast.Expr) ast.Expr {
	switch x := e.(type) {
	case *ast.Ident:
		if d, ok := t.local[x.Name]; ok {
			return t.subst(d)
		}
		return x
	case *ast.SelectorExpr:
		return &ast.SelectorExpr{X: t.subst(x.X), Sel: x.Sel}
	case *ast.IndexExpr:
		return &ast.IndexExpr{X: t.subst(x.X), Index: t.subst(x.Index)}
	case *ast.ParenExpr:
		return t.subst(x.X)
	case *ast.StarExpr:
		return t.subst(x.X)
	}
	return e
}

// rooted tells whether a selector/index chain starts at a parameter or the receiver.
func (t *tr) rooted(e ast.Expr) bool {
	switch x := e.(type) {
	case *ast.Ident:
		_, ok := t.params[x.Name]
		return ok
	case *ast.SelectorExpr:
		return t.rooted(x.X)
	case *ast.IndexExpr:
		if id, ok := x.Index.(*ast.Ident); !ok || t.params[id.Name] == "" {
			return false
		}
		return t.rooted(x.X)
	}
	return false
}

func (t *tr) leafOf(e ast.Expr, forceType string) (string, string) {
	e = t.subst(e)
	if !t.rooted(e) {
		fail("expression not rooted at a parameter: %s", src(e))
	}
	text := strings.Join(strings.Fields(src(e)), "")
	typ := forceType
	if typ == "" {
		switch x := e.(type) {
		case *ast.Ident:
			typ = basic(t.params[x.Name])
		case *ast.SelectorExpr:
			ts := fieldTypes[x.Sel.Name]
			if len(ts) != 1 {
				fail("field %s has %d declared types", x.Sel.Name, len(ts))
			}
			for k := range ts {
				typ = basic(strings.TrimPrefix(k, "*"))
			}
		}
	}
	if typ == "" {
		fail("no basic type for %s", text)
	}
	key := text + ":" + typ
	if i, ok := t.byText[key]; ok {
		return t.leaves[i].name, typ
	}
	name := sanitize(text)
	if forceType == "Int" && !strings.HasPrefix(name, "len_") && typ == "Int" {
		// len(x)
	}
	for _, l := range t.leaves {
		if l.name == name {
			name += "_" + fmt.Sprint(len(t.leaves))
		}
	}
	t.byText[key] = len(t.leaves)
	t.leaves = append(t.leaves, leaf{name, typ, text})
	return name, typ
}

// expr translates to a Lean term and returns its type.
func (t *tr) expr(e ast.Expr) (string, string) {
	switch x := e.(type) {
	case *ast.ParenExpr:
		s, ty := t.expr(x.X)
		return "(" + s + ")", ty
	case *ast.BasicLit:
		switch x.Kind {
		case token.INT:
			return "(" + x.Value + " : Int)", "Int"
		case token.STRING:
			if strings.HasPrefix(x.Value, "`") || strings.Contains(x.Value, "\\") {
				fail("string literal with escapes")
			}
			return x.Value + ".toList", "Str"
		case token.CHAR:
			if strings.Contains(x.Value, "\\") && x.Value != "'\\t'" && x.Value != "'\\n'" {
				fail("char literal with escapes")
			}
			return x.Value, "Char"
		}
		fail("literal %s", x.Value)
	case *ast.Ident:
		switch x.Name {
		case "true", "false":
			return x.Name, "Bool"
		}
		if _, ok := t.local[x.Name]; ok {
			return t.expr(t.local[x.Name])
		}
		n, ty := t.leafOf(x, "")
		return n, ty
	case *ast.SelectorExpr:
		if id, ok := x.X.(*ast.Ident); ok && id.Name == "http" {
			if v, ok := httpStatus[x.Sel.Name]; ok {
				return fmt.Sprintf("(%d : Int)", v), "Int"
			}
		}
		n, ty := t.leafOf(x, "")
		return n, ty
	case *ast.IndexExpr:
		n, ty := t.leafOf(x, "")
		return n, ty
	case *ast.CallExpr:
		if id, ok := x.Fun.(*ast.Ident); ok && id.Name == "len" && len(x.Args) == 1 {
			a := t.subst(x.Args[0])
			if !t.rooted(a) {
				fail("len of %s", src(a))
			}
			text := "len(" + strings.Join(strings.Fields(src(a)), "") + ")"
			key := text + ":Int"
			if i, ok := t.byText[key]; ok {
				return t.leaves[i].name, "Int"
			}
			name := "len_" + sanitize(src(a))
			t.byText[key] = len(t.leaves)
			t.leaves = append(t.leaves, leaf{name, "Int", text})
			return name, "Int"
		}
		fail("call %s", src(x.Fun))
	case *ast.UnaryExpr:
		s, ty := t.expr(x.X)
		switch {
		case x.Op == token.NOT && ty == "Bool":
			return "(!" + s + ")", "Bool"
		case x.Op == token.SUB && ty == "Int":
			return "(-" + s + ")", "Int"
		}
		fail("unary %s on %s", x.Op, ty)
	case *ast.BinaryExpr:
		// `x == nil`, `nil == x`, `x != nil`: one Bool leaf "x is nil"
		if x.Op == token.EQL || x.Op == token.NEQ {
			var other ast.Expr
			if id, ok := x.X.(*ast.Ident); ok && id.Name == "nil" {
				other = x.Y
			} else if id, ok := x.Y.(*ast.Ident); ok && id.Name == "nil" {
				other = x.X
			}
			if other != nil {
				o := t.subst(other)
				if !t.rooted(o) {
					fail("nil test of %s", src(o))
				}
				text := strings.Join(strings.Fields(src(o)), "") + "==nil"
				key := text + ":Bool"
				i, ok := t.byText[key]
				if !ok {
					i = len(t.leaves)
					t.byText[key] = i
					t.leaves = append(t.leaves, leaf{sanitize(src(o)) + "_isNil", "Bool", text})
				}
				if x.Op == token.NEQ {
					return "(!" + t.leaves[i].name + ")", "Bool"
				}
				return t.leaves[i].name, "Bool"
			}
		}
		a, ta := t.expr(x.X)
		b, tb := t.expr(x.Y)
		if ta != tb {
			fail("operands of %s have types %s and %s", x.Op, ta, tb)
		}
		switch x.Op {
		case token.LAND:
			return "(" + a + " && " + b + ")", "Bool"
		case token.LOR:
			return "(" + a + " || " + b + ")", "Bool"
		case token.EQL:
			return "(" + a + " == " + b + ")", "Bool"
		case token.NEQ:
			return "(" + a + " != " + b + ")", "Bool"
		}
		if ta == "Int" {
			switch x.Op {
			case token.LSS:
				return "decide (" + a + " < " + b + ")", "Bool"
			case token.GTR:
				return "decide (" + a + " > " + b + ")", "Bool"
			case token.LEQ:
				return "decide (" + a + " ≤ " + b + ")", "Bool"
			case token.GEQ:
				return "decide (" + a + " ≥ " + b + ")", "Bool"
			case token.ADD:
				return "(" + a + " + " + b + ")", "Int"
			case token.SUB:
				return "(" + a + " - " + b + ")", "Int"
			case token.MUL:
				return "(" + a + " * " + b + ")", "Int"
			}
		}
		if ta == "Str" {
			switch x.Op {
			case token.LSS:
				return "Str.lt " + a + " " + b, "Bool"
			case token.GTR:
				return "Str.lt " + b + " " + a, "Bool"
			}
		}
		fail("binary %s on %s", x.Op, ta)
	}
	fail("expression %T", e)
	return "", ""
}

// stmts translates a statement list that must end in a return; `rest` is what follows the list
// in the enclosing block ("" when nothing may follow).
func (t *tr) stmts(l []ast.Stmt, ind string) (string, string) {
	if len(l) == 0 {
		fail("block does not end in a return")
	}
	switch s := l[0].(type) {
	case *ast.ReturnStmt:
		if len(s.Results) != 1 {
			fail("return with %d results", len(s.Results))
		}
		return t.expr(s.Results[0])
	case *ast.AssignStmt:
		if s.Tok != token.DEFINE || len(s.Lhs) != 1 || len(s.Rhs) != 1 {
			fail("assignment %s", src(s))
		}
		id, ok := s.Lhs[0].(*ast.Ident)
		if !ok {
			fail("assignment target")
		}
		if _, dup := t.local[id.Name]; dup {
			fail("%s assigned twice", id.Name)
		}
		t.local[id.Name] = s.Rhs[0]
		return t.stmts(l[1:], ind)
	case *ast.IfStmt:
		if s.Init != nil {
			fail("if with init")
		}
		c, tc := t.expr(s.Cond)
		if tc != "Bool" {
			fail("condition of type %s", tc)
		}
		saved := map[string]ast.Expr{}
		for k, v := range t.local {
			saved[k] = v
		}
		th, tt := t.stmts(s.Body.List, ind+"  ")
		t.local = saved
		var el, te string
		if s.Else != nil {
			eb, ok := s.Else.(*ast.BlockStmt)
			if !ok {
				fail("else if")
			}
			el, te = t.stmts(eb.List, ind+"  ")
			if len(l) > 1 {
				fail("statements after if/else")
			}
		} else {
			el, te = t.stmts(l[1:], ind)
		}
		if tt != te {
			fail("branches of types %s and %s", tt, te)
		}
		return "if " + c + " then " + th + "\n" + ind + "else " + el, tt
	}
	fail("statement %T", l[0])
	return "", ""
}

var httpStatus = map[string]int{"StatusOK": 200, "StatusCreated": 201, "StatusAccepted": 202, "StatusNoContent": 204, "StatusNotModified": 304,
	"StatusBadRequest": 400, "StatusNotFound": 404, "StatusMethodNotAllowed": 405, "StatusNotAcceptable": 406, "StatusUnsupportedMediaType": 415,
	"StatusInternalServerError": 500}

type result struct{ name, lean, doc string }

func translate(fd *ast.FuncDecl, file string) (res *result, why string) {
	defer func() {
		if p := recover(); p != nil {
			u, ok := p.(untranslatable)
			if !ok {
				panic(p)
			}
			res, why = nil, u.why
		}
	}()
	t := &tr{params: map[string]string{}, local: map[string]ast.Expr{}, byText: map[string]int{}}
	name := fd.Name.Name
	if fd.Recv != nil && len(fd.Recv.List) > 0 {
		rt := strings.TrimPrefix(src(fd.Recv.List[0].Type), "*")
		name = rt + "_" + name
		for _, n := range fd.Recv.List[0].Names {
			t.params[n.Name] = rt
		}
	}
	for _, p := range fd.Type.Params.List {
		for _, n := range p.Names {
			t.params[n.Name] = src(p.Type)
		}
	}
	if fd.Type.Results == nil || len(fd.Type.Results.List) != 1 || len(fd.Type.Results.List[0].Names) > 0 {
		fail("not a single unnamed result")
	}
	rty := basic(src(fd.Type.Results.List[0].Type))
	if rty == "" {
		fail("result type %s", src(fd.Type.Results.List[0].Type))
	}
	body, ty := t.stmts(fd.Body.List, "    ")
	if ty != rty {
		fail("body of type %s, result %s", ty, rty)
	}
	if len(t.leaves) == 0 {
		fail("constant function")
	}
	var b strings.Builder
	pos := fset.Position(fd.Pos())
	fmt.Fprintf(&b, "/-- %s:%d `%s`; leaves, in order of first appearance:", filepath.Base(file), pos.Line, strings.ReplaceAll(name, "_", "."))
	for _, l := range t.leaves {
		fmt.Fprintf(&b, " `%s`", l.text)
	}
	b.WriteString(" -/\n")
	fmt.Fprintf(&b, "def %s", name)
	for _, l := range t.leaves {
		fmt.Fprintf(&b, " (%s : %s)", l.name, l.typ)
	}
	fmt.Fprintf(&b, " : %s :=\n    %s\n", rty, body)
	return &result{name: name, lean: b.String()}, ""
}

func main() {
	if len(os.Args) != 3 {
		fmt.Fprintln(os.Stderr, "usage: gotrans <repo dir> <out.lean>")
		os.Exit(2)
	}
	dir, out := os.Args[1], os.Args[2]
	files, _ := filepath.Glob(filepath.Join(dir, "*.go"))
	sort.Strings(files)
	var parsed []*ast.File
	var names []string
	for _, f := range files {
		if strings.HasSuffix(f, "_test.go") {
			continue
		}
		af, err := parser.ParseFile(fset, f, nil, 0)
		if err != nil {
			fmt.Fprintln(os.Stderr, err)
			os.Exit(1)
		}
		parsed = append(parsed, af)
		names = append(names, f)
		for _, d := range af.Decls {
			gd, ok := d.(*ast.GenDecl)
			if !ok {
				continue
			}
			for _, sp := range gd.Specs {
				ts, ok := sp.(*ast.TypeSpec)
				if !ok {
					continue
				}
				st, ok := ts.Type.(*ast.StructType)
				if !ok {
					continue
				}
				for _, fl := range st.Fields.List {
					for _, n := range fl.Names {
						if fieldTypes[n.Name] == nil {
							fieldTypes[n.Name] = map[string]bool{}
						}
						fieldTypes[n.Name][src(fl.Type)] = true
					}
				}
			}
		}
	}
	// call sites of the sort package: which ordering is applied to what, and with which algorithm
	var sortCalls [][2]string
	for _, af := range parsed {
		for _, d := range af.Decls {
			fd, ok := d.(*ast.FuncDecl)
			if !ok || fd.Body == nil {
				continue
			}
			fname := fd.Name.Name
			if fd.Recv != nil && len(fd.Recv.List) > 0 {
				fname = strings.TrimPrefix(src(fd.Recv.List[0].Type), "*") + "." + fname
			}
			ast.Inspect(fd.Body, func(n ast.Node) bool {
				if c, ok := n.(*ast.CallExpr); ok {
					if sel, ok := c.Fun.(*ast.SelectorExpr); ok {
						if id, ok := sel.X.(*ast.Ident); ok && id.Name == "sort" && sel.Sel.Name != "Reverse" {
							sortCalls = append(sortCalls, [2]string{fname, strings.Join(strings.Fields(src(c)), " ")})
						}
					}
				}
				return true
			})
		}
	}
	var done []*result
	var skipped []string
	for i, af := range parsed {
		for _, d := range af.Decls {
			fd, ok := d.(*ast.FuncDecl)
			if !ok || fd.Body == nil {
				continue
			}
			r, why := translate(fd, names[i])
			if r != nil {
				done = append(done, r)
			} else {
				n := fd.Name.Name
				if fd.Recv != nil && len(fd.Recv.List) > 0 {
					n = strings.TrimPrefix(src(fd.Recv.List[0].Type), "*") + "." + n
				}
				skipped = append(skipped, n+": "+why)
			}
		}
	}
	sort.Slice(done, func(i, j int) bool { return done[i].name < done[j].name })
	var b strings.Builder
	b.WriteString("/- GENERATED by tools/gotrans from the go-restful sources. Do not edit: regenerated on every run.\n")
	b.WriteString("   The loop-free decision functions of the package, translated statement by statement. -/\n")
	b.WriteString("import Restful.Go.Str\nnamespace Restful.Translated\nopen Restful\n\n")
	var ns []string
	for _, r := range done {
		b.WriteString(r.lean)
		b.WriteString("\n")
		ns = append(ns, "\""+r.name+"\"")
	}
	fmt.Fprintf(&b, "def translatedNames : List String := [%s]\n\n", strings.Join(ns, ", "))
	b.WriteString("/-- every call into package sort: (enclosing function, call as written) -/\ndef sortCalls : List (String × String) := [")
	for i, c := range sortCalls {
		if i > 0 {
			b.WriteString(", ")
		}
		fmt.Fprintf(&b, "(%q, %q)", c[0], c[1])
	}
	b.WriteString("]\n\n")
	fmt.Fprintf(&b, "/- %d functions translated, %d outside the translated subset -/\n", len(done), len(skipped))
	b.WriteString("end Restful.Translated\n")
	if err := os.WriteFile(out, []byte(b.String()), 0o644); err != nil {
		fmt.Fprintln(os.Stderr, err)
		os.Exit(1)
	}
	if os.Getenv("GOTRANS_VERBOSE") != "" {
		for _, s := range skipped {
			fmt.Fprintln(os.Stderr, "skipped", s)
		}
	}
}
